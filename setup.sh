#!/bin/sh
# Offline setup: make hypothesis importable for /venv/bin/python (no network).
HERE="$(cd "$(dirname "$0")" && pwd)"
PY=/venv/bin/python
if "$PY" -c "import hypothesis" >/dev/null 2>&1; then
  echo "hypothesis already importable"; exit 0
fi
mkdir -p "$HERE/.deps"
PIP_NO_INDEX=1 "$PY" -m pip install --no-index --find-links /opt/veriftools/wheels --target "$HERE/.deps" hypothesis \
  && echo "hypothesis installed into $HERE/.deps"
PYTHONPATH="$HERE/.deps" "$PY" -c "import hypothesis; print('hypothesis', hypothesis.__version__)"
