"""Shared plumbing for checks: violations, statistics, Hypothesis drivers, log capture."""

from __future__ import annotations

import collections
import logging
import os

import hypothesis
from hypothesis import HealthCheck, Phase, given, settings
from hypothesis import seed as hyp_seed
from hypothesis.stateful import run_state_machine_as_test

from pav.runner import known_keys, stable_hash


class Violation(Exception):
    """The property does not hold for a generated case."""

    def __init__(self, key: str, what: str, case=None) -> None:
        super().__init__(f"{key}: {what}")
        self.key = key
        self.what = what
        self.case = case

    def as_dict(self) -> dict:
        return {"key": self.key, "what": self.what, "case": self.case}


class HarnessError(Exception):
    """The harness itself misbehaved (never reported as a violation)."""


# ------------------------------------------------------------------ log capture


class _Capture(logging.Handler):
    def __init__(self) -> None:
        super().__init__(level=logging.ERROR)
        self.records: list[logging.LogRecord] = []

    def emit(self, record: logging.LogRecord) -> None:
        if len(self.records) < 200:
            self.records.append(record)


LOG = _Capture()
_installed = False


def install_logging() -> None:
    """Route pyairtouch logging into LOG (ERROR and above), nothing to stderr."""
    global _installed
    if _installed:
        return
    lg = logging.getLogger("pyairtouch")
    lg.handlers[:] = [LOG]
    lg.propagate = False
    lg.setLevel(logging.ERROR)
    logging.getLogger("asyncio").setLevel(logging.CRITICAL)
    _installed = True


def unhandled_task_errors() -> list[str]:
    """Messages logged by the client for background tasks that died."""
    out = []
    for r in LOG.records:
        try:
            msg = r.getMessage()
        except Exception:  # noqa: BLE001
            msg = str(r.msg)
        if "Unhandled exception in background task" in msg:
            ei = r.exc_info
            out.append(msg + (": " + repr(ei[1]) if ei else ""))
    return out


# ------------------------------------------------------------------ statistics


class Stats:
    def __init__(self, cid: str, max_samples: int = 4) -> None:
        self.cid = cid
        self.evaluations = 0
        self.classes: collections.Counter = collections.Counter()
        self.nt_hashes: set = set()
        self.nt_disjoint = 0
        self.samples: list = []
        self.max_samples = max_samples
        self.violations: list = []
        self.known_hits: collections.Counter = collections.Counter()
        self.extra: dict = {}
        self.known = known_keys(cid)
        self.ignore_keys: set = set()
        self.exhaustive = None
        # shrink budget: after the first failure of a round the shrinker gets
        # this many seconds; afterwards every execution passes immediately so
        # Hypothesis stops, and the smallest failure seen so far is reported.
        self.shrink_budget = float(os.environ.get("PAV_SHRINK_BUDGET", "12"))
        self.first_fail_t = None
        self.best = None
        self.bail = False

    def case(self, canonical, nontrivial: bool, classes=(), sample=None) -> None:
        self.evaluations += 1
        for c in classes:
            self.classes[c] += 1
        if nontrivial:
            self.nt_hashes.add(stable_hash(canonical))
            self.classes["nontrivial"] += 1
        if sample is not None and len(self.samples) < self.max_samples and nontrivial and self.evaluations % 7 == 3:
            self.samples.append(sample)

    def result(self) -> dict:
        r = {
            "evaluations": self.evaluations,
            "classes": dict(self.classes),
            "nt_hashes": list(self.nt_hashes),
            "nt_disjoint": self.nt_disjoint,
            "samples": self.samples,
            "violations": self.violations,
            "known_hits": dict(self.known_hits),
            "extra": self.extra,
        }
        if self.exhaustive is not None:
            r["exhaustive"] = self.exhaustive
        return r

    # -- violation routing -------------------------------------------------
    def new_round(self) -> None:
        self.first_fail_t = None
        self.best = None
        self.bail = False

    def note_failure(self, v: "Violation") -> None:
        import json
        import time
        size = len(json.dumps(v.case, default=repr))
        if self.best is None or size <= self.best[0]:
            self.best = (size, v)
        now = time.monotonic()
        if self.first_fail_t is None:
            self.first_fail_t = now
        elif now - self.first_fail_t > self.shrink_budget:
            self.bail = True

    def filter(self, v: "Violation") -> bool:
        """True if the violation must be raised (not known, not already found)."""
        if v.key in self.known:
            self.known_hits[v.key] += 1
            return False
        if v.key in self.ignore_keys:
            return False
        self.note_failure(v)
        return True

    def guard(self, fn, *a, **k):
        """Run fn; swallow violations that are known findings or already found."""
        if self.bail:
            return None
        try:
            return fn(*a, **k)
        except Violation as v:
            if self.filter(v):
                raise
            return None


def hyp_settings(max_examples: int, *, shrink: bool = True, stateful_step_count: int | None = None):
    phases = [Phase.generate, Phase.target]
    if shrink:
        phases.append(Phase.shrink)
    kw = dict(
        max_examples=max_examples,
        database=None,
        deadline=None,
        derandomize=False,
        report_multiple_bugs=False,
        phases=phases,
        suppress_health_check=[HealthCheck.too_slow, HealthCheck.data_too_large, HealthCheck.large_base_example],
        print_blob=False,
        verbosity=hypothesis.Verbosity.quiet,
    )
    if stateful_step_count is not None:
        kw["stateful_step_count"] = stateful_step_count
    return settings(**kw)


def _extract_violation(exc: BaseException):
    if isinstance(exc, Violation):
        return exc
    if isinstance(exc, BaseExceptionGroup):
        for e in exc.exceptions:
            v = _extract_violation(e)
            if v is not None:
                return v
    c = exc.__cause__ or exc.__context__
    if c is not None and c is not exc:
        return _extract_violation(c)
    return None


def drive(stats: Stats, make_test, seed: int, rounds: int = 3) -> None:
    """Run a Hypothesis test (built by make_test(round_seed)) collecting violations.

    After a violation with key k has been found and shrunk, the search is run
    again (new derived seed) ignoring k, so that a second root cause hiding
    behind a shallow one is still found (at most `rounds` keys per shard).
    """
    for r in range(rounds):
        test = make_test(seed + r * 7919)
        stats.new_round()
        try:
            test()
            if stats.best is None:
                return
            v = stats.best[1]
        except hypothesis.errors.FailedHealthCheck:
            raise
        except BaseException as exc:  # noqa: BLE001
            if stats.best is not None:
                v = stats.best[1]
            else:
                v = _extract_violation(exc)
                if v is None:
                    raise
        stats.violations.append(v.as_dict())
        stats.ignore_keys.add(v.key)
        if getattr(stats, "fatal", False):
            break   # every further case would hit the same wall (e.g. a livelock while the rig is built)
    stats.new_round()


def given_test(strategy, body, seed: int, max_examples: int, shrink: bool = True):
    @hyp_seed(seed)
    @hyp_settings(max_examples, shrink=shrink)
    @given(strategy)
    def test(case):
        body(case)

    return test


def machine_test(machine_cls, seed: int, max_examples: int, steps: int, shrink: bool = True):
    def test():
        run_state_machine_as_test(
            hyp_seed(seed)(machine_cls),
            settings=hyp_settings(max_examples, shrink=shrink, stateful_step_count=steps),
        )

    return test


def in_shard() -> bool:
    return os.environ.get("PAV_IN_SHARD") == "1"
