"""E1 - deterministic virtual-time event loop.

A `VLoop` is an `asyncio.BaseEventLoop` whose clock is a number owned by the
harness.  It has no selector, no file descriptors and never blocks: when nothing
is ready it jumps the clock exactly to the `when` of the earliest timer (no
floating point accumulation: instants used by the harness are dyadic rationals
so `a + L` is exact), and raises `Idle` when nothing at all is scheduled.

The harness drives it with three primitives:

  settle()        run every callback that is ready *at the current instant*
                  (including callbacks scheduled by those callbacks and timers
                  due now) without advancing the clock
  advance(dt)     move the clock forward by dt, running everything that becomes
                  due on the way in timestamp order, then settle()
  run(coro)       run_until_complete with Idle detection

Real time is never read.
"""

from __future__ import annotations

import asyncio
import heapq
from asyncio import base_events


class Idle(RuntimeError):
    """Raised when the loop would block for ever (nothing ready, no timer)."""


class _NoSelector:
    """Stands in for the selector of a selector event loop."""

    def __init__(self, loop: "VLoop") -> None:
        self._loop = loop

    def select(self, timeout=None):
        loop = self._loop
        if timeout is None:
            raise Idle("virtual loop idle for ever")
        if timeout > 0:
            # Jump exactly to the earliest timer (or by `timeout` if clamped).
            sched = loop._scheduled
            if sched:
                when = sched[0]._when
                if when - loop._vtime <= timeout:
                    loop._vtime = max(loop._vtime, when)
                else:
                    loop._vtime += timeout
            else:  # pragma: no cover - cannot happen (timeout would be None)
                loop._vtime += timeout
        return []

    def close(self):
        pass


class Livelock(RuntimeError):
    """The loop never becomes idle although virtual time stands still."""


class VLoop(base_events.BaseEventLoop):
    """Virtual time event loop (see module docstring)."""

    def __init__(self) -> None:
        super().__init__()
        self._vtime = 0.0
        self._clock_resolution = 2.0 ** -20  # must exceed the float ulp at the largest virtual time used
        self._selector = _NoSelector(self)
        self.unhandled: list[dict] = []
        self.set_exception_handler(self._record_unhandled)
        self.udp = None  # set by fakenet.FakeUdp

    # -- BaseEventLoop plumbing -------------------------------------------------
    def time(self) -> float:
        return self._vtime

    def _process_events(self, event_list) -> None:
        pass

    def _write_to_self(self) -> None:
        pass

    def _record_unhandled(self, loop, context) -> None:
        entry = {
            "t": self._vtime,
            "message": context.get("message"),
            "exception": repr(context.get("exception")),
        }
        self.unhandled.append(entry)

    async def create_datagram_endpoint(self, protocol_factory, local_addr=None,
                                       remote_addr=None, *, sock=None, **kw):
        if self.udp is None:
            raise OSError("no fake UDP installed on this loop")
        return self.udp.create_endpoint(protocol_factory, sock)

    # -- harness primitives --------------------------------------------------
    def _has_due(self) -> bool:
        if self._ready:
            return True
        sched = self._scheduled
        while sched and sched[0]._cancelled:
            self._timer_cancelled_count -= 1
            h = heapq.heappop(sched)
            h._scheduled = False
        return bool(sched) and sched[0]._when < self._vtime + self._clock_resolution

    def settle(self, max_iter: int = 30000) -> None:
        """Run everything that is runnable at the current instant."""
        n = 0
        while self._has_due():
            self.call_soon(self.stop)
            self.run_forever()
            n += 1
            if n > max_iter:
                raise Livelock("settle(): livelock at t=%r (still busy after %d loop iterations in one instant)" % (self._vtime, n))

    def advance(self, dt: float) -> None:
        """Advance virtual time by dt (>= 0) and settle."""
        self.settle()
        if dt > 0:
            target = self._vtime + dt
            self.call_at(target, self.stop)
            self.run_forever()
            assert self._vtime == target, (self._vtime, target)
        self.settle()

    def advance_to(self, t: float) -> None:
        if t > self._vtime:
            self.advance(t - self._vtime)
        else:
            self.settle()

    def spawn(self, coro) -> asyncio.Task:
        """Start a harness task (marked so leak checks can tell it apart)."""
        task = self.create_task(coro)
        task._pav_harness = True  # type: ignore[attr-defined]
        return task

    def call(self, coro):
        """Run a coroutine to completion at the current instant.

        Returns ("ok", value) / ("raise", exc) / ("pending", task).
        """
        task = self.spawn(coro)
        self.settle()
        return outcome(task)

    def run(self, coro):
        return self.run_until_complete(coro)

    # -- introspection -------------------------------------------------------
    def live_timers(self) -> list:
        return [h for h in self._scheduled if not h._cancelled]

    def foreign_tasks(self) -> list:
        return [
            t for t in asyncio.all_tasks(self)
            if not t.done() and not getattr(t, "_pav_harness", False)
        ]

    def dispose(self) -> None:
        """Cancel whatever is left and close (end of a generated case)."""
        try:
            for _ in range(5):
                tasks = [t for t in asyncio.all_tasks(self) if not t.done()]
                if not tasks:
                    break
                for t in tasks:
                    t.cancel()
                self.settle()
            for t in asyncio.all_tasks(self):
                if t.done() and not t.cancelled():
                    t.exception()  # mark retrieved
        except Exception:
            pass
        finally:
            self._ready.clear()
            self._scheduled.clear()
            if not self.is_closed():
                self.close()


def outcome(task: asyncio.Task):
    if not task.done():
        return ("pending", task)
    if task.cancelled():
        return ("cancelled", None)
    exc = task.exception()
    if exc is not None:
        return ("raise", exc)
    return ("ok", task.result())


def new_loop() -> VLoop:
    loop = VLoop()
    asyncio.set_event_loop(loop)
    return loop
