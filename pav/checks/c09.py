"""C09 - initialisation completes against any answering console, else fails cleanly.

Hypothesis @given over (installation x console behaviour) on
`pyairtouch.connect(...)` + `init()` against the simulated console (pav.console).

Installations: 1..4 ACs (AT5 also ids up to 15), 0..16 zones, every partition
shape: AT4 new format (bitmap per AC), AT4 old format single AC (start/count
arbitrary) and multi-AC (contiguous), AT5 contiguous start/count and the
zero-zone echo.  Behaviour: per step answer delay, segmentation of every answer,
0..2 extra frames before/after each answer from {unsolicited AC / zone / timer
status consistent with the console state, duplicate of another answer, unknown
type, unknown sub-type, frame addressed to another client incl. a request echo
with a foreign address, error-info message}, silent from step k in 1..6,
connect latency in {0, 1, 4.5, 5.5, never}.

Oracle.  Requests seen by the console: version, names, abilities, AC status,
timer status, zone/group status in that order, request k+1 never before a frame
of the kind awaited at step k was delivered after request k, no discovery request
repeated (one further version request - the first heartbeat - is allowed once
initialised); `init()` returns True, `initialised` is True; `air_conditioners` =
the described ACs each with exactly its zones per the installation's mapping
rule; all getters equal the reference model of the console state.  Console silent
at step k / connect latency >= 5 s / answers later than 5 s: `init()` returns
False at exactly t = 5 s, `initialised` False, nothing raised, no
unhandled-exception report.
"""

from __future__ import annotations

from hypothesis import strategies as st

from pav import console as con
from pav import harness, refmodel
from pav.harness import Stats, Violation, drive, given_test
from pav.rig import ApiRig

ID = "C09"
LEVEL = "exploration"
RULE = ("Hypothesis-generated (installation, state, console behaviour, connect latency) cases; non-trivial: >= 1 extra "
        "frame or a cut inside a frame, or several ACs, or zero zones, or a silent step / late answer; distinct by case")
ASSUMPTIONS = [
    "installations are self-consistent (every zone referenced by an AC has a name)",
    "extras of the awaited kind carry the console's current state (they are legitimate answers)",
    "answer instants never coincide exactly with the 5 s deadline (palette excludes a total of exactly 5 s)",
    "an AT4 console without groups answers the names / group status requests with zero records (byte-identical to the request)",
]

AWAITS = {"version_req": "version", "names_req": "names", "ability_req": "ability", "ac_status_req": "ac_status",
          "timer_status_req": "timer_status", "zone_status_req": "zone_status"}
EXTRA_KINDS = ["ac_status", "zone_status", "timer_status", "version", "names", "ability", "unknown", "foreign", "error_info"]
DELAYS = [0.0, 0.0, 0.0, 0.125, 0.5, 1.0, 2.25]


def _extras():
    return st.lists(st.tuples(st.sampled_from(EXTRA_KINDS), st.integers(0, 5)).map(list), max_size=2)


def _step_spec():
    return st.fixed_dictionaries({
        "delay": st.sampled_from(DELAYS),
        "cuts": st.lists(st.integers(1, 400), max_size=4),
        "before": _extras(), "after": _extras()})


@st.composite
def _case(draw, gen: int):
    inst = draw(con.installation(gen))
    state = draw(con.full_state(inst))
    beh = {k: [draw(_step_spec())] for k in con.STEPS}
    silent_at = draw(st.one_of(st.none(), st.none(), st.none(), st.integers(0, 5)))
    if silent_at is not None:
        beh[con.STEPS[silent_at]][0]["silent"] = True
    lat = draw(st.sampled_from([0.0, 0.0, 0.0, 1.0, 4.5, 5.5, "never"]))
    # refused attempts before the accepted one (the client retries every 2 s)
    refusals = draw(st.sampled_from([0, 0, 0, 1, 2, 3]))
    return {"inst": inst, "state": state, "behaviour": beh, "connect": lat, "refusals": refusals}


def check_case(case, stats: Stats | None = None):
    inst, state, beh, lat = case["inst"], case["state"], case["behaviour"], case["connect"]
    gen = inst["gen"]

    def bad(key, what):
        raise Violation(f"C09:{key}", what, case)

    script = [("refuse", 0.0)] * 8 if lat == "never" else [("refuse", 0.0)] * case.get("refusals", 0) + [("accept", lat)]
    rig = ApiRig(inst, state, beh, connect_script=script)
    if lat == "never":
        rig.net.default = ("refuse", 0.0)
    c = rig.console
    # combined event log: requests and deliveries in order of occurrence
    events = []
    c.on_request = lambda kind, payload: events.append(("req", kind, rig.loop.time()))
    c.on_deliver = lambda label: events.append(("tx", AWAITS.get(label.split(":")[-1], label.split(":")[-1]), rig.loop.time()))
    try:
        r = rig.run_init(limit=7.0)
        t_ret = rig.init_returned_at
        # Reference handshake: the client processes delivered frames in order; a frame of
        # the kind awaited at the current step (solicited or not) completes that step.
        step, t_done = 0, None
        for (e, k, t) in events:
            if e == "tx" and step < 6 and k == AWAITS[con.STEPS[step]]:
                step += 1
                if step == 6:
                    t_done = t
        silent = any(beh[k][0].get("silent") for k in con.STEPS)
        expect_ok = t_done is not None and t_done < 5.0
        if t_done is not None and abs(t_done - 5.0) < 1e-9:
            return  # exact tie with the deadline: unspecified
        if r[0] == "pending":
            bad("init-hangs", "init() did not return within 7 s of virtual time")
        if r[0] != "ok":
            bad("init-raised", f"init() raised {r[1]!r}")
        if rig.loop.unhandled:
            bad("unhandled", f"unhandled exception reported to the loop: {rig.loop.unhandled[0]}")
        errs = harness.unhandled_task_errors()
        if errs:
            bad("task-died", f"a client task died: {errs[0]}")
        classes = [f"gen{gen}", f"form:{inst['form']}", f"acs:{len(inst['acs'])}"]
        if case.get("refusals") and lat != "never":
            classes.append("refused-first")
        if inst["zero_zones"]:
            classes.append("zero-zones-at5")
        if gen == 4 and not inst["zones"]:
            classes.append("zero-zones-at4")
        seq = [k for (e, k, _t) in events if e == "req" and k in con.STEPS]
        if not expect_ok:
            classes.append("expect-false")
            if silent:
                classes.append("silent-step:%d" % [i for i, k in enumerate(con.STEPS) if beh[k][0].get("silent")][0])
            opened_before = any(e[1] == "open" and e[0] < 5.0 for e in rig.net.log)
            opened_at_deadline = any(e[1] == "open" and e[0] == 5.0 for e in rig.net.log)
            allowed = [con.STEPS[:step + 1]] if opened_before else ([con.STEPS[:i] for i in range(step + 2)] if opened_at_deadline else [[]])
            if seq not in allowed:
                bad("request-order", f"handshake stalled at step {step} yet the discovery requests seen are {seq}")
            if r[1] is not False:
                bad("init-true-unanswered", f"console never completed the handshake yet init() returned {r[1]!r}")
            if t_ret != 5.0:
                bad("init-false-time", f"init() returned False at t={t_ret}, expected exactly 5.0")
            if rig.at.initialised:
                bad("initialised-true", "initialised is True after init() returned False")
        else:
            classes.append("expect-true")
            if r[1] is not True:
                bad("init-false", f"console completed the handshake at t={t_done} yet init() returned "
                                  f"{r[1]!r} at t={t_ret}; requests seen: {seq}")
            if not rig.at.initialised:
                bad("initialised-false", "init() returned True but initialised is False")
            rig.loop.settle()
            seq = [k for (e, k, _t) in events if e == "req" and k in con.STEPS]
            if seq[:6] != con.STEPS or any(k != "version_req" for k in seq[6:]) or len(seq) > 7:
                bad("request-order", f"discovery requests seen: {seq}")
            # request k+1 never before a frame of the kind awaited at step k was delivered
            first_tx = {}
            for i, (e, k, _t) in enumerate(events):
                if e == "tx" and k not in first_tx:
                    first_tx[k] = i
            idx = {}
            for i, (e, k, _t) in enumerate(events):
                if e == "req" and k in con.STEPS and k not in idx:
                    idx[k] = i
            for a, b in zip(con.STEPS, con.STEPS[1:]):
                if first_tx.get(AWAITS[a], 1 << 30) > idx[b]:
                    bad("request-early", f"{b} was sent before any {AWAITS[a]} frame was delivered")
            # the model
            exp = refmodel.expected_model(inst, state)
            acs = rig.at.air_conditioners
            if sorted(a.ac_id for a in acs) != sorted(exp["acs"]):
                bad("ac-set", f"air_conditioners = {[a.ac_id for a in acs]}, console described {sorted(exp['acs'])}")
            for ac in acs:
                d = refmodel.compare_entity("ac", ac.ac_id, refmodel.read_ac(ac, rig.api), exp["acs"][ac.ac_id])
                if d:
                    bad(f"ac-attr:{d[0][0]}", f"AC {ac.ac_id}: {d[0][0]} = {d[0][1]!r}, expected {d[0][2]!r}")
                for z in ac.zones:
                    d = refmodel.compare_entity("zone", z.zone_id, refmodel.read_zone(z), exp["zones"][z.zone_id])
                    if d:
                        bad(f"zone-attr:{d[0][0]}", f"zone {z.zone_id}: {d[0][0]} = {d[0][1]!r}, expected {d[0][2]!r}")
            v = inst["version"]
            if list(rig.at.console_versions) != v["versions"] or rig.at.update_available != v["update"]:
                bad("version", f"console_versions={list(rig.at.console_versions)} update={rig.at.update_available}, "
                               f"console reported {v}")
        n_extra = sum(len(beh[k][0]["before"]) + len(beh[k][0]["after"]) for k in con.STEPS)
        n_cuts = sum(1 for k in con.STEPS if beh[k][0]["cuts"])
        if n_extra:
            classes.append("extras")
        if n_cuts:
            classes.append("segmented")
        nt = bool(n_extra or n_cuts or len(inst["acs"]) > 1 or not inst["zones"] or not expect_ok or case.get("refusals"))
        if stats is not None:
            stats.case(case, nt, classes=classes,
                       sample={"gen": gen, "acs": [(a["number"], a["name"]) for a in inst["acs"]],
                               "zones": sorted(inst["zones"]), "form": inst["form"], "connect": lat,
                               "behaviour": {k: {kk: vv for kk, vv in v[0].items() if vv} for k, v in beh.items()},
                               "init": r[1], "t": t_ret, "requests": seq})
    finally:
        rig.dispose()


def shards(tier: str):
    n, reps = (150, 8) if tier == "quick" else (800, 16)
    return [{"gen": g, "n": n, "k": k} for g in (4, 5) for k in range(reps)]


def floors(tier: str):
    f = {"expect-true": 200, "expect-false": 100, "zero-zones-at5": 5, "form:bitmap": 50, "form:old": 30, "form:range": 100,
         "extras": 200, "segmented": 200, "refused-first": 100}
    for i in range(6):
        f[f"silent-step:{i}"] = 3
    return f


def run_shard(spec, seed: int, tier: str):
    stats = Stats(ID)
    drive(stats, lambda s: given_test(_case(spec["gen"]), lambda c: stats.guard(check_case, c, stats), s, spec["n"]), seed)
    return stats.result()


def replay(case):
    try:
        check_case(case, None)
    except Violation as v:
        return v.as_dict()
    return None
