"""C02 - retry discipline: bounded attempts, none after expiry, non-idempotent once.

Two layers, both Hypothesis @given over fault scripts on the virtual loop.

(a) socket layer: every message is submitted with `send_with_header` and a unique
    packet id, so each frame start on the wire (header bytes written, frame
    complete or not) is attributed to exactly one submitted message.  Scripts of
    <= 10 events over {send with policy (r in 0..3, lifetime L in {1, 2, 30}),
    write fault on the 1st/2nd/3rd write of the next frame, peer reset, refuse x
    k, accept with latency, advance dt} where dt is drawn from a palette
    *relative to the deadline* of the tracked message {.., L-1/8, L, L+1/8}
    measured from its accept time (dyadic, exact), so that reconnections land
    just before, exactly at and just after expiry.
(b) API layer: public commands of both generations on an initialised client
    (idempotent: zone damper, AC set-point, AC on/off; non-idempotent: AC power
    toggle; check_for_updates) plus the client's own requests (refresh after
    reconnect, heartbeat, error-info, AT4 poll) observed as they occur; same
    fault palette with lifetimes 30 s / 1 s.

Oracle.  For a message m with accept time a, retries r and lifetime L:
(1) frame starts of m on the wire <= 1 + r; (2) no byte of m is written at an
instant >= a + L; (3) commands whose independent reading contains toggle /
inc / dec / change-control-type: <= 1 frame start whatever the faults;
(4) handshake / heartbeat / refresh / error-info / poll requests: <= 1 frame
start each; (5) positive half: if exactly one write fault hit m, r >= 1, and a
connection is established at c < a + L, then the first complete frame on that
connection is m (before refresh requests and before later messages).  For (b)
the class (idempotent 2 retries / 30 s, non-idempotent 0 / 30 s, connected-only
0 / 1 s) follows docs/design.md, not the command's code path.
"""

from __future__ import annotations

from hypothesis import strategies as st

from pav import cmdref, cmdrun
from pav import console as con
from pav import harness, refcodec, refproto, sockops
from pav.harness import Stats, Violation, drive, given_test
from pav.rig import ApiRig, SockRig, make_header, registry

ID = "C02"
LEVEL = "fault_enumeration"
RULE = ("Hypothesis-generated fault scripts (write faults on the 1st/2nd/3rd write of a frame, resets, refusals, connect "
        "latencies, clock advances placed relative to the tracked message's deadline) at socket and API level; every frame "
        "start on the wire is attributed to a submitted message by its header bytes.  Non-trivial: a fault hit a write of a "
        "tracked message or it was accepted while the link was down; distinct by script"
        " Also: reconnection at the original deadline after a delayed write failure, outages as long as the stock lifetimes, a flush stalled by back-pressure, console-pushed error codes, zone / AC set-point commands.")
ASSUMPTIONS = ["a write that fails (injected fault) transmits nothing; bytes of later writes of that frame are dropped by the transport",
               "retry classes of public commands follow the table in docs/design.md (idempotent 2/30 s, non-idempotent 0/30 s, connected 0/1 s)"]

LIFETIMES = [1.0, 2.0, 30.0]
# documented stock policies (docs/design.md, "Retries"): name -> (retries, lifetime)
DOCUMENTED = {"idem": (2, 30.0), "nonidem": (0, 30.0), "conn": (0, 1.0)}


def frame_starts(gen: int, tr):
    """Every frame the client started to put on this connection's wire, however its writes were cut:
    [(t, header bytes, (type, data) | None if the frame is incomplete)].  A start is recognised at each position where
    the previous frame ended (the byte stream of one connection is a sequence of frames, the last possibly partial)."""
    hlen = refproto.header_len(gen)
    data = tr.tx_bytes()
    offs, pos = [], 0
    for t, b in tr.writes:
        offs.append((pos, t))
        pos += len(b)

    def t_at(off):
        k = 0
        while k + 1 < len(offs) and offs[k + 1][0] <= off:
            k += 1
        return offs[k][1] if offs else None
    out, i = [], 0
    while i + hlen <= len(data):
        hb = data[i:i + hlen]
        if gen == 4:
            ln = (hb[6] << 8) | hb[7]
            mt = hb[5]
        else:
            ln = (hb[18] << 8) | hb[19]
            mt = hb[17]
        end = i + hlen + ln + 2
        if end <= len(data):
            out.append((t_at(i), hb, (mt, data[i + hlen:i + hlen + ln])))
            i = end
        else:
            out.append((t_at(i), hb, None))
            break
    return out


# =============================================================================== (a) socket layer


@st.composite
def _sock_script(draw, gen: int):
    ops = []
    n = draw(st.integers(3, 10))
    tracked_at = draw(st.integers(0, n - 1))
    for i in range(n):
        if i == tracked_at:
            pre = draw(st.sampled_from(["none", "fault1", "fault2", "fault3", "down", "down", "chain", "down_armed", "late_retry", "long_outage", "stalled_flush"]))
            if pre == "stalled_flush":
                # messages pile up during an outage; the new connection takes n writes and then exerts back-pressure, so
                # the flush is suspended in drain() while the lifetime of a message further back in the queue runs out;
                # when the console reads again that message must not be written any more
                ops.append(["backpressure", draw(st.integers(1, 5))])
                ops.append(["down", 1, 0.0])
                ops.append(["send", "F", draw(st.integers(0, 2)), 30.0])
                if draw(st.booleans()):
                    ops.append(["send", "F", draw(st.integers(0, 2)), 30.0])
                if draw(st.booleans()):
                    ops.append(["send", "T", "conn", None])          # 1 s lifetime (refresh-type request)
                else:
                    ops.append(["send", "T", draw(st.integers(0, 3)), 4.0])
                ops.append(["send", "F", draw(st.integers(0, 2)), 30.0])
                ops.append(["advance", 2.0])                          # the retry connects; the flush starts and stalls
                # ... and while it is suspended other tasks submit further messages (each runs its own flush of the
                # queue next to the suspended one): nothing already handed to the connection may be written again
                for _ in range(draw(st.integers(0, 2))):
                    ops.append(["send", "F", draw(st.integers(0, 2)), 30.0])
                ops.append(["advance", draw(st.sampled_from([0.5, 1.0, 2.0, 3.0]))])
                ops.append(["resume"])
                ops.append(["advance", 1.0])
                continue
            if pre == "long_outage":
                # every connection attempt is refused for about as long as the stock lifetime: the message is submitted
                # so that one of the 2 s retries falls exactly at a + L + delta, and the network accepts from just before
                # that attempt (documented lifetimes of the stock policies: 30 s / 30 s / 1 s)
                name = draw(st.sampled_from(["idem", "nonidem", "conn"]))
                L = DOCUMENTED[name][1]
                delta = draw(st.sampled_from([-0.125, 0.0, 0.125, 2.0]))
                ops.append(["default", "refuse"])
                ops.append(["reset"])
                ops.append(["advance", (-L - delta) % 2.0])
                ops.append(["send", "T", name, None])
                ops.append(["advance_rel_exact", L + delta - 0.0625])
                ops.append(["default", "accept"])
                ops.append(["advance", 4.0])
                continue
            if pre == "late_retry":
                # accepted while the link is down; the write on the first connection (0.5 s later) fails; the next
                # connection is established around the ORIGINAL deadline a + L (the lifetime does not restart on a retry)
                L = draw(st.sampled_from([2.0, 30.0]))
                delta = draw(st.sampled_from([-0.125, 0.0, 0.125, 1.0]))
                ops.append(["down", 0, 0.5])
                ops.append(["arm", [draw(st.sampled_from([1, 2, 3]))]])
                ops.append(["send", "T", draw(st.integers(1, 3)), L])
                ops.append(["script", [["accept", L - 0.5 + delta]]])
                ops.append(["advance", 0.5])
                ops.append(["advance", L + 1.0])
                continue
            if pre.startswith("fault"):
                ops.append(["fault", int(pre[-1])])
            elif pre == "down":
                ops.append(["down", draw(st.integers(0, 3)), draw(st.sampled_from([0.0, 0.125, 0.875, 1.0, 1.125]))])
            elif pre == "chain":
                # a fault on this connection and on each of the next ones: the message keeps failing
                ops.append(["fault", draw(st.sampled_from([2, 3]))])
                ops.append(["arm", [draw(st.sampled_from([2, 3])) for _ in range(draw(st.integers(1, 5)))]])
            elif pre == "down_armed":
                # link down, messages queued, the first connection fails while the head of the queue is written
                ops.append(["down", 1, 0.0])
                ops.append(["arm", [draw(st.sampled_from([2, 3]))]])
            if pre in ("none", "down", "fault1", "fault2", "fault3", "chain") and draw(st.booleans()):
                # stock policies are judged against the documented numbers (2 retries / 30 s, 0 / 30 s, 0 / 1 s) - also when
                # the message keeps failing on connection after connection ("chain")
                ops.append(["send", "T", draw(st.sampled_from(["idem", "nonidem", "conn"])), None])
            else:
                ops.append(["send", "T", draw(st.integers(0, 3)), draw(st.sampled_from([2.0, 30.0] if pre in ("chain", "down_armed") else LIFETIMES))])
            if pre == "down_armed":
                for _ in range(draw(st.integers(1, 3))):
                    ops.append(["send", "F", draw(st.integers(0, 3)), 30.0])
                ops.append(["advance", 2.0])
            continue
        kind = draw(st.sampled_from(["send", "send", "fault", "reset", "down", "adv", "adv", "adv_rel", "adv_rel"]))
        if kind == "send":
            ops.append(["send", "F", draw(st.integers(0, 3)), draw(st.sampled_from(LIFETIMES))])
        elif kind == "fault":
            ops.append(["fault", draw(st.integers(1, 3))])
        elif kind == "reset":
            ops.append(["reset"])
        elif kind == "down":
            ops.append(["down", draw(st.integers(0, 3)), draw(st.sampled_from([0.0, 0.125, 1.0, 2.0]))])
        elif kind == "adv":
            ops.append(["advance", draw(st.sampled_from([0.0, 0.125, 0.5, 1.0, 2.0, 4.0]))])
        else:
            ops.append(["advance_rel", draw(st.sampled_from([-1.0, -0.125, 0.0, 0.125, 1.0]))])
    return {"layer": "sock", "gen": gen, "ops": ops}


def run_sock(case, stats: Stats | None):
    gen = case["gen"]

    def bad(key, what):
        raise Violation(f"C02:{key}", what, case)

    rig = SockRig(gen)
    try:
        rig.open()
        reg = registry(gen)
        msgs = []      # dict(pid, a, r, L, header_bytes, full, tracked, faults)
        tracked = None
        hits = set()
        hlen = refproto.header_len(gen)
        for op in case["ops"]:
            name = op[0]
            loop, net = rig.loop, rig.net
            if name == "send":
                pid = len(msgs) + 1
                kind, params = "zone_pct", [pid % 16, pid % 101]
                m = sockops.build(gen, kind, params)
                mtype, data = sockops.expect(gen, kind, params)
                size = reg.get_encoder(m.message_id).size(m)
                hdr = make_header(gen, 0x80, 0xB0, pid, m.message_id, size)
                full = refproto.frame(gen, 0x80, 0xB0, pid, mtype, data)
                if isinstance(op[2], str):
                    r_doc, l_doc = DOCUMENTED[op[2]]
                    policy = sockops.STOCK[op[2]]
                else:
                    r_doc, l_doc = op[2], op[3]
                    policy = sockops.policy_of([op[2], op[3]])
                rec = {"pid": pid, "a": loop.time(), "r": r_doc, "L": l_doc, "hb": full[:hlen], "full": full, "tracked": op[1] == "T",
                       "down_at_accept": not rig.sock.is_connected, "logpos": len(net.log)}
                msgs.append(rec)
                if rec["tracked"]:
                    tracked = rec
                res = loop.call(rig.sock.send_with_header(hdr, m, policy))
                if res[0] == "raise" and type(res[1]).__name__ != "QueueOverflowError":
                    bad("send-raised", f"send raised {res[1]!r}")
                if res[0] == "raise":
                    msgs.pop()
                    if tracked is rec:
                        tracked = None
            elif name == "fault":
                if net.current is not None and net.current.alive:
                    net.current.fail_write(op[1])
            elif name == "reset":
                if net.current is not None and net.current.alive:
                    net.current.peer_reset()
                    loop.settle()
            elif name == "down":
                for _ in range(op[1]):
                    net.script.append(("refuse", 0.0))
                net.script.append(("accept", op[2]))
                if net.current is not None and net.current.alive:
                    net.current.peer_reset()
                loop.settle()
            elif name == "arm":
                net.arm_on_accept.extend(op[1])
            elif name == "script":
                for k_, lat_ in op[1]:
                    net.script.append((k_, lat_))
            elif name == "backpressure":
                net.pause_on_accept.append(op[1])
            elif name == "resume":
                if net.current is not None:
                    net.current.pause_after = None
                    net.current.resume_writing()
            elif name == "default":
                net.default = (op[1], 0.0)
            elif name == "advance_rel_exact":
                if tracked is not None and tracked["a"] + op[1] > loop.time():
                    loop.advance(tracked["a"] + op[1] - loop.time())
            elif name == "advance":
                loop.advance(op[1])
            elif name == "advance_rel":
                if tracked is not None:
                    target = tracked["a"] + tracked["L"] + op[1]
                    if target > loop.time():
                        # let the reconnection land around the deadline: wait, then accept
                        loop.advance(target - loop.time())
                    else:
                        loop.advance(0.125)
                else:
                    loop.advance(0.5)
            loop.settle()
        # let everything still alive go out
        net.heal()
        rig.loop.advance(40.0)
        # ---- attribute every write to a message by header bytes
        by_hdr = {m["hb"]: m for m in msgs}
        starts = {m["pid"]: [] for m in msgs}
        completes = {}
        fault_times = [e[0] for e in net.log if e[1] == "write_fault"]
        complete_at = {}   # pid -> [(t, cid)] of complete frames
        for tr in net.conns:
            for t, hb, content in frame_starts(gen, tr):
                m = by_hdr.get(hb)
                if m is not None:
                    starts[m["pid"]].append((t, tr.cid))
                    if content is not None:
                        complete_at.setdefault(m["pid"], []).append((t, tr.cid))
            pr = refproto.parse_stream(gen, tr.tx_bytes())
            for k, fr in enumerate(pr.frames):
                completes.setdefault(tr.cid, []).append(fr.pid)
        for m in msgs:
            ss = starts[m["pid"]]
            if len(ss) > 1 + m["r"]:
                bad("too-many-attempts", f"message pid={m['pid']} (retries {m['r']}, lifetime {m['L']}) was put on the wire "
                                         f"{len(ss)} times at {ss}")
            late = [s for s in ss if s[0] >= m["a"] + m["L"]]
            if late:
                bad("sent-after-expiry", f"message pid={m['pid']} accepted at t={m['a']} with lifetime {m['L']} was written at "
                                         f"t={late[0][0]} (>= {m['a'] + m['L']})")
        classes = [f"gen{gen}"] + (["long-outage"] if ["default", "refuse"] in case["ops"] else [])
        if any(e[1] == "pause" for e in net.log):
            classes.append("flush-stalled-by-backpressure")
        nt = False
        if tracked is not None:
            ss = starts[tracked["pid"]]
            if tracked["down_at_accept"]:
                classes.append("accepted-while-down")
                nt = True
            # positive half: exactly one fault hit the tracked message
            t_faults = [e for e in net.log if e[1] == "write_fault"]
            hit = _faults_hitting(net, tracked, msgs, complete_at)
            if hit:
                classes.append("fault-hit-tracked")
                nt = True
            if len(hit) == 1 and tracked["r"] >= 1:
                t_f, cid_f = hit[0]
                later_opens = [e for e in net.log if e[1] == "open" and e[0] >= t_f and e[2] > cid_f]
                if later_opens and later_opens[0][0] < tracked["a"] + tracked["L"]:
                    cid_n = later_opens[0][2]
                    first = completes.get(cid_n, [])
                    if not first or first[0] != tracked["pid"]:
                        bad("not-resent-first", f"one transient write failure hit message pid={tracked['pid']} (retries "
                                                f"{tracked['r']}, accepted t={tracked['a']}, lifetime {tracked['L']}); the next connection "
                                                f"was established at t={later_opens[0][0]} but its first complete frame is "
                                                f"{first[:1] or 'none'}")
                    classes.append("resent-first")
            dl = tracked["a"] + tracked["L"]
            opens = [e[0] for e in net.log if e[1] == "open" and e[0] > tracked["a"]]
            if hit and any(o > hit[0][0] and dl - 0.25 <= o <= dl + 1.0 for o in opens):
                classes.append("reconnect-near-deadline-after-fault")
            for o in opens:
                if o == dl:
                    classes.append("open-at-deadline")
                elif o == dl - 0.125:
                    classes.append("open-just-before-deadline")
                elif o == dl + 0.125:
                    classes.append("open-just-after-deadline")
        if stats is not None:
            stats.case(case, nt, classes=classes, sample={"layer": "sock", "gen": gen, "ops": case["ops"],
                                                          "starts": {k: v for k, v in starts.items() if len(v) > 1}})
    finally:
        rig.dispose()


def _faults_hitting(net, m, msgs, complete_at, gen=None):
    """Write faults that hit message m, independent of how the client cuts a frame into write calls.  The network log
    is replayed in order: at the position of the fault, m had been submitted, no complete frame of m was on any wire
    yet, and every message submitted before m either had a complete frame on a wire or had expired - so m was the one
    being written.  (Conservative: an earlier message that was dropped for good hides later hits.)"""
    out = []
    bufs: dict = {}
    hdr_of = {x["hb"]: x for x in msgs}
    done: set = set()

    def refresh(cid):
        data, i = bytes(bufs[cid]), 0
        hlen = len(m["hb"])
        while i + hlen <= len(data):
            hb = data[i:i + hlen]
            ln = ((hb[6] << 8) | hb[7]) if hlen == 8 else ((hb[18] << 8) | hb[19])
            end = i + hlen + ln + 2
            if end > len(data):
                break
            x = hdr_of.get(hb)
            if x is not None:
                done.add(x["pid"])
            i = end
        rest[cid] = data[i:]
    rest: dict = {}
    for pos, e in enumerate(net.log):
        if e[1] == "tx":
            bufs.setdefault(e[2], bytearray()).extend(e[3])
            refresh(e[2])
        elif e[1] == "write_fault":
            t_f, cid = e[0], e[2]
            if m["logpos"] > pos or t_f >= m["a"] + m["L"] or m["pid"] in done:
                continue
            part = rest.get(cid, b"")
            if len(part) >= len(m["hb"]):
                # the unfinished frame on that connection names its message: the fault hit exactly that one
                if part[:len(m["hb"])] == m["hb"]:
                    out.append((t_f, cid))
                    continue
                if part[:len(m["hb"])] in hdr_of:
                    continue
            if all(x["pid"] in done or t_f >= x["a"] + x["L"] for x in msgs if x["logpos"] <= pos and x["pid"] < m["pid"]):
                out.append((t_f, cid))
    return out


# =============================================================================== (b) API layer


def _toggle_data(gen, ac):
    if gen == 4:
        return 0x2C, bytes([(1 << 6) | ac, 0xFF, 0x3F, 0])
    return 0xC0, bytes([0x22, 0, 0, 0, 0, 4, 0, 1, (1 << 4) | ac, 0xFF, 0x00, 0xFF])


def _power_data(gen, ac, on):
    code = 3 if on else 2
    if gen == 4:
        return 0x2C, bytes([(code << 6) | ac, 0xFF, 0x3F, 0])
    return 0xC0, bytes([0x22, 0, 0, 0, 0, 4, 0, 1, (code << 4) | ac, 0xFF, 0x00, 0xFF])


@st.composite
def _api_script(draw, gen: int):
    inst = draw(con.installation(gen, max_acs=2))
    state = draw(con.full_state(inst))
    ac_ids = [a["number"] for a in inst["acs"]]
    ops = []
    used = set()
    for _ in range(draw(st.integers(2, 7))):
        pre = draw(st.sampled_from(["none", "none", "fault1", "fault2", "fault3", "down", "down", "down_armed", "long_outage"]))
        lo_ac = draw(st.sampled_from(ac_ids))
        if pre == "long_outage" and "lo" not in used and not ({("t", lo_ac), ("p", lo_ac), "u"} & used):
            # the command is submitted during an outage that lasts about as long as the documented lifetime (30 s)
            used.add("lo")
            delta = draw(st.sampled_from([-0.125, 0.0, 0.125, 2.0]))
            ac = lo_ac
            ops.append(["default", "refuse"])
            ops.append(["reset"])
            ops.append(["advance", (-30.0 - delta) % 2.0])
            ops.append(draw(st.sampled_from([["cmd", "toggle", ac], ["cmd", "power", ac, True], ["cmd", "update"]])))
            ops.append(["advance_rel_exact", 30.0 + delta - 0.0625])
            ops.append(["default", "accept"])
            ops.append(["advance", 4.0])
            used.add(("t", ac)); used.add(("p", ac)); used.add("u")
            continue
        if pre.startswith("fault"):
            ops.append(["fault", int(pre[-1])])
        elif pre == "down":
            ops.append(["down", draw(st.integers(0, 3)), draw(st.sampled_from([0.0, 0.125, 0.875, 1.0, 1.125]))])
        elif pre == "down_armed":
            ops.append(["arm", [draw(st.sampled_from([2, 3, 5, 6]))]])
            ops.append(["down", draw(st.integers(0, 1)), 0.0])
            ops.append(["advance", 2.0])
        what = draw(st.sampled_from(["toggle", "toggle", "power", "update", "damper", "nothing"]))
        ac = draw(st.sampled_from(ac_ids))
        if draw(st.integers(0, 3)) == 0:
            # the console reports a new error code: the client answers with an internally generated error-information
            # request (a refresh request), optionally into a failing write, optionally with the reconnection refused
            ops.append(["push_error", draw(st.sampled_from(ac_ids)), draw(st.integers(1, 0xFFFE)), draw(st.integers(0, 3)),
                        draw(st.integers(0, 2))])
            ops.append(["advance", draw(st.sampled_from([0.0, 0.125, 2.0, 4.0]))])
        if what == "toggle" and ("t", ac) not in used:
            used.add(("t", ac))
            ops.append(["cmd", "toggle", ac])
        elif what == "power" and ("p", ac) not in used:
            used.add(("p", ac))
            ops.append(["cmd", "power", ac, draw(st.booleans())])
        elif what == "update" and "u" not in used:
            used.add("u")
            ops.append(["cmd", "update"])
        elif what == "damper" and "call" not in used:
            # the other public commands (all idempotent: 2 retries / 30 s): zone power, damper, zone set-point and AC
            # set-point; one per case so that its frames are attributable by their reading
            used.add("call")
            zs = cmdrun.reachable_zones(inst)
            opts = [st.integers(10, 35).map(lambda t: ["ac_temp", ac, float(t)])]
            if zs:
                z = draw(st.sampled_from(zs))
                opts += [st.sampled_from(["ON", "OFF"]).map(lambda p: ["zone_power", z, p]),
                         st.integers(0, 100).map(lambda p: ["zone_damper", z, p])]
            ops.append(["cmd", "call", draw(st.one_of(*opts))])
        post = draw(st.sampled_from(["adv", "adv_rel30", "adv_rel1", "reset", "none"]))
        if post == "adv":
            ops.append(["advance", draw(st.sampled_from([0.0, 0.125, 1.0, 2.0, 5.0]))])
        elif post == "adv_rel30":
            ops.append(["advance_rel", 30.0, draw(st.sampled_from([-0.125, 0.0, 0.125]))])
        elif post == "adv_rel1":
            ops.append(["advance_rel", 1.0, draw(st.sampled_from([-0.125, 0.0, 0.125]))])
        elif post == "reset":
            ops.append(["reset"])
    return {"layer": "api", "inst": inst, "state": state, "ops": ops}


def run_api(case, stats: Stats | None):
    inst, state = case["inst"], case["state"]
    gen = inst["gen"]

    def bad(key, what):
        raise Violation(f"C02:{key}", what, case)

    rig = ApiRig(inst, state)
    try:
        if rig.run_init() != ("ok", True):
            bad("init", "init failed")
        api = rig.api
        acs = {a.ac_id: a for a in rig.at.air_conditioners}
        cmds = []   # dict(content=(mtype,data), a, r, L, cls)
        rig.loop.advance(1.0)
        t_start = rig.loop.time()
        last_a = t_start
        n_conn0 = len(rig.net.conns)
        armed_for = None
        single_fault_cmd = None
        pushed_error = False
        for op in case["ops"]:
            loop, net = rig.loop, rig.net
            name = op[0]
            if name == "fault":
                if net.current is not None and net.current.alive and rig.sock.is_connected:
                    net.current.fail_write(op[1])
                    armed_for = "next"
            elif name == "reset":
                if net.current is not None and net.current.alive:
                    net.current.peer_reset()
            elif name == "down":
                for _ in range(op[1]):
                    net.script.append(("refuse", 0.0))
                net.script.append(("accept", op[2]))
                if net.current is not None and net.current.alive:
                    net.current.peer_reset()
            elif name == "arm":
                net.arm_on_accept.extend(op[1])
            elif name == "push_error":
                cur = net.current
                if cur is not None and cur.alive and rig.sock.is_connected:
                    st_ac = rig.console.state["acs"][str(op[1])]
                    st_ac["error_code"] = op[2] if st_ac["error_code"] != op[2] else (op[2] % 0xFFFE) + 1
                    for _ in range(op[4]):
                        net.script.append(("refuse", 0.0))
                    if op[3]:
                        cur.fail_write(op[3])
                    rig.console.feed(cur, rig.console.w.ac_status(list(rig.console.state["acs"].values())), label="push:error")
                    pushed_error = True
            elif name == "advance":
                loop.advance(op[1])
            elif name == "advance_rel":
                target = last_a + op[1] + op[2]
                loop.advance(max(0.0, target - loop.time()))
            elif name == "default":
                net.default = (op[1], 0.0)
            elif name == "advance_rel_exact":
                loop.advance(max(0.0, last_a + op[1] - loop.time()))
            elif name == "cmd":
                last_a = loop.time()
                hit_by_armed = armed_for == "next" and net.current is not None and net.current.fail_after is not None
                armed_for = None
                cid_before = net.conns[-1].cid if net.conns else None
                if op[1] == "toggle":
                    content, r, L, cls = _toggle_data(gen, op[2]), 0, 30.0, "non-idempotent"
                    coro = acs[op[2]].set_power(api.AcPowerControl.TOGGLE)
                elif op[1] == "power":
                    content, r, L, cls = _power_data(gen, op[2], op[3]), 2, 30.0, "idempotent"
                    coro = acs[op[2]].set_power(api.AcPowerControl.TURN_ON if op[3] else api.AcPowerControl.TURN_OFF)
                elif op[1] == "call":
                    content, r, L, cls = None, 2, 30.0, "idempotent"
                    coro = cmdref.perform(rig, op[2])
                else:
                    content, r, L, cls = (0x1F, b"\xff\x30"), 2, 30.0, "update"
                    coro = rig.at.check_for_updates()
                res = loop.call(coro)
                if res[0] == "raise" and type(res[1]).__name__ != "QueueOverflowError":
                    bad("command-raised", f"{op}: {res[1]!r}")
                if res[0] != "raise":
                    cmds.append({"content": content, "a": last_a, "r": r, "L": L, "cls": cls, "op": op, "armed": hit_by_armed,
                                 "cid": cid_before})
            loop.settle()
        rig.net.heal()
        rig.loop.advance(40.0)
        # ---- attribute frame starts (header writes) after init to identities (header bytes incl. packet id)
        ident = {}     # header bytes -> list of (t, cid)
        content_of = {}
        for tr in rig.net.conns:
            for t, hb, content in frame_starts(gen, tr):
                if t is not None and t >= t_start:
                    ident.setdefault(bytes(hb), []).append((t, tr.cid))
                    if content is not None:
                        content_of[bytes(hb)] = (content[0], bytes(content[1]))
        # ---- judge
        classes = [f"gen{gen}"] + (["long-outage"] if ["default", "refuse"] in case["ops"] else [])
        nt = False
        for hb, ss in ident.items():
            c = content_of.get(hb)
            if c is None:
                continue
            kind, payload = refcodec.read_client_frame(gen, c[0], c[1])
            mine = [m for m in cmds if m["content"] == c]
            if kind == "ac_control" and payload[0]["power"] == "toggle" or \
                    (kind == "zone_control" and (payload[0]["power"] == "toggle" or payload[0]["setting"] in ("inc", "dec")
                                                 or payload[0]["ctype"] == "change")):
                if len(ss) > 1:
                    bad("non-idempotent-repeated", f"a command whose repetition accumulates ({kind} {payload[0]}) was put on the wire "
                                                   f"{len(ss)} times at {ss}")
                classes.append("toggle-on-wire")
                lim, L = 1, 30.0
            elif kind in ("ac_control", "zone_control", "timer_control", "quick_timer"):
                lim, L = 3, 30.0
            elif kind == "version_req" and mine:
                lim, L = 3, 30.0
            elif kind.endswith("_req"):
                lim, L = (1, 1.0) if not (kind == "version_req" and any(m["cls"] == "update" for m in cmds)) else (3, 30.0)
                if kind == "error_req" and pushed_error:
                    classes.append("error-request-on-wire")
                if lim == 1 and len(ss) > 1:
                    bad("connected-only-retried", f"a {kind} (handshake / heartbeat / refresh / poll request) was put on the wire "
                                                  f"{len(ss)} times at {ss}")
            else:
                continue
            if len(ss) > lim:
                bad("too-many-attempts", f"{kind} was put on the wire {len(ss)} times at {ss} (at most {lim} allowed)")
            if len(ss) > 1:
                classes.append("retried")
                nt = True
            for m in mine[:1]:
                late = [s for s in ss if s[0] >= m["a"] + m["L"]]
                if late:
                    bad("sent-after-expiry", f"{m['op']} accepted at t={m['a']} was written at t={late[0][0]} "
                                             f"(lifetime {m['L']} s)")
            if lim == 1 and L == 1.0 and len(ss) == 1:
                pass
        # commands never seen although a connection existed within their lifetime and no fault: covered by C01
        faults = [e for e in rig.net.log if e[1] == "write_fault"]
        if faults:
            classes.append("write-fault")
            nt = True
        # positive half: the only write fault of the scenario was armed right before an idempotent command
        # => that command is re-sent first on the next connection (before the refresh requests)
        if len(faults) == 1:
            for m in cmds:
                if m["cls"] == "idempotent" and m["armed"] and faults[0][0] == m["a"] and not _complete_on(rig, gen, m, inst, state):
                    opens = [e for e in rig.net.log if e[1] == "open" and e[0] >= m["a"] and e[2] > m["cid"]]
                    if opens and opens[0][0] < m["a"] + m["L"]:
                        tr2 = rig.net.conns[opens[0][2]]
                        pr = refproto.parse_stream(gen, tr2.tx_bytes())
                        if m["content"] is None:
                            # a generic public call: the first frame must be what that call means (independent reading)
                            exp = cmdref.expected(inst, state, m["op"][2])
                            first_ok = bool(pr.frames) and exp[0] == "frame" and not cmdref.judge_frame(gen, exp, pr.frames[0])
                        else:
                            first_ok = bool(pr.frames) and (pr.frames[0].mtype, pr.frames[0].data) == m["content"]
                        if not first_ok:
                            got = (hex(pr.frames[0].mtype), pr.frames[0].data.hex()) if pr.frames else None
                            bad("not-resent-first", f"{m['op']}: one transient write failure, next connection at t={opens[0][0]} "
                                                    f"(< {m['a'] + m['L']}), but its first frame is {got}")
                        classes.append("resent-first")
        if rig.loop.unhandled or harness.unhandled_task_errors():
            bad("unhandled", f"unhandled exception: {(rig.loop.unhandled or harness.unhandled_task_errors())[0]}")
        if stats is not None:
            stats.case(case, nt, classes=classes, sample={"layer": "api", "gen": gen, "ops": case["ops"],
                                                          "retried": {k.hex()[-16:]: v for k, v in ident.items() if len(v) > 1}})
    finally:
        rig.dispose()


def _complete_on(rig, gen, m, inst, state) -> bool:
    """True if the command's frame went out complete on the connection it was submitted on (then the armed write
    fault hit a later write, not this command - whatever the client's write granularity)."""
    if m["cid"] is None:
        return False
    tr = rig.net.conns[m["cid"]]
    for t, _hb, content in frame_starts(gen, tr):
        if content is None or t is None or t < m["a"]:
            continue
        if m["content"] is not None:
            if (content[0], bytes(content[1])) == m["content"]:
                return True
        else:
            exp = cmdref.expected(inst, state, m["op"][2])
            fr = refproto.parse_all(gen, refproto.frame(gen, 0x80, 0xB0, 0, content[0], bytes(content[1])))[0]
            if exp[0] == "frame" and not cmdref.judge_frame(gen, exp, fr):
                return True
    return False


def shards(tier: str):
    n, reps = (500, 4) if tier == "quick" else (4000, 8)
    out = []
    for g in (4, 5):
        for k in range(reps):
            out.append({"layer": "sock", "gen": g, "n": n, "k": k})
            out.append({"layer": "api", "gen": g, "n": n // 2, "k": k})
    return out


def floors(tier: str):
    return {"fault-hit-tracked": 100, "accepted-while-down": 100, "resent-first": 30, "open-at-deadline": 5,
            "open-just-before-deadline": 5, "open-just-after-deadline": 5, "toggle-on-wire": 50,
            "error-request-on-wire": 30, "reconnect-near-deadline-after-fault": 40, "long-outage": 150, "flush-stalled-by-backpressure": 100}


def run_shard(spec, seed: int, tier: str):
    stats = Stats(ID)
    gen = spec["gen"]
    if spec["layer"] == "sock":
        drive(stats, lambda s: given_test(_sock_script(gen), lambda c: stats.guard(run_sock, c, stats), s, spec["n"]), seed)
    else:
        drive(stats, lambda s: given_test(_api_script(gen), lambda c: stats.guard(run_api, c, stats), s, spec["n"]), seed)
    return stats.result()


def replay(case):
    try:
        (run_sock if case["layer"] == "sock" else run_api)(case, None)
    except Violation as v:
        return v.as_dict()
    return None
