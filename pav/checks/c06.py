"""C06 - checksum is CRC-16/MODBUS; damaged frames are never delivered.

(a) `Crc16Modbus.calculate(b)` == bit-serial CRC-16/MODBUS (pav.refproto) for all
    byte strings of length 1..2 and (thorough: all, quick: 300 000 random) of
    length 3, random strings up to 4 KiB and every vendor example frame;
    `validate(b, c)` <=> c == crc(b); a check value of the wrong length raises
    ValueError.
(b) for generated console->client frames of every kind and every error pattern of
    the three families - each single bit (exhaustive over covered bytes and check
    bytes), bit pairs (exhaustive for frames <= 24 bytes, sampled otherwise),
    bursts of length 2..16 at every offset with generated interior, contiguous in the
    CRC's own serial order (bytes in order, LSB first, register low byte before high
    byte: the order in which CRC-16 guarantees detection) - `validate(covered',
    check')` is False.
(c) end to end: the damaged frame, preceded and followed by intact frames, is fed to
    a live socket; oracle = the independent receive model (pav.refproto.parse_stream)
    run on the same bytes: the subscriber sees exactly the frames the model
    accepts, never the damaged one; when the model finds the error the old
    connection is closed, a new one is opened, and intact probe frames sent on the
    new connection are delivered.
"""

from __future__ import annotations

import itertools

from hypothesis import strategies as st

from pyairtouch.comms.crc16 import Crc16Modbus

from pav import sockops
from pav import gens, refproto
from pav.harness import Stats, Violation, drive, given_test
from pav import ser
from pav.rig import SockRig
from pav.rig import console_frames as _console_frames


def console_frames(gen, messages, **kw):
    """Frames for the simulated console, produced by the library's own send path.  If the independent framing rejects what
    the library wrote (wrong check bytes), that is a finding of this check, not a harness failure."""
    try:
        return _console_frames(gen, messages, **kw)
    except ValueError as exc:
        if "error=crc" not in str(exc):
            raise
        raise Violation("C06:written-frame-bad-checksum", f"a frame written by the client is rejected by the independent CRC-16/MODBUS "
                        f"framing: {exc}", {"part": "written", "gen": gen, "messages": [ser.to_json(m) for m in messages], "kw": kw})

ID = "C06"
LEVEL = "fault_enumeration"
RULE = ("(a) enumeration of byte strings of length 1..3 plus generated longer ones against the bit-serial definition; "
        "(b) enumeration of single-bit / double-bit / burst<=16 error patterns over generated frames of every "
        "console->client kind; (c) Hypothesis-generated (stream, corruption) cases on a live socket against the "
        "independent receive model.  Non-trivial: the pattern lands inside address..check bytes and changes the bytes; "
        "distinct by (bytes, pattern) / by input string")
ASSUMPTIONS = [
    "frames are < 4 KiB so single/double-bit and burst<=16 detection is within CRC-16's guarantee",
    "a flip inside the length field re-frames the stream; what must (not) be delivered is decided by the reference receive model",
    "fake transport mirrors asyncio selector transport semantics",
]

CALC = Crc16Modbus()


def shards(tier: str):
    out = []
    if tier == "quick":
        out.append({"part": "crc-12"})
        for k in range(15):
            out.append({"part": "crc-rand", "n3": 20000, "nlong": 300, "k": k})
        for gen in (4, 5):
            for k in range(8):
                out.append({"part": "patterns", "gen": gen, "n": 6, "k": k})
            for k in range(8):
                out.append({"part": "e2e", "gen": gen, "n": 120, "k": k})
            out.append({"part": "e2e-special-header", "gen": gen})
    else:
        out.append({"part": "crc-12"})
        for b0 in range(256):
            out.append({"part": "crc-3", "b0": b0})
        for k in range(16):
            out.append({"part": "crc-rand", "n3": 0, "nlong": 4000, "k": k})
        for gen in (4, 5):
            for k in range(32):
                out.append({"part": "patterns", "gen": gen, "n": 12, "k": k})
            for k in range(32):
                out.append({"part": "e2e", "gen": gen, "n": 600, "k": k})
            out.append({"part": "e2e-special-header", "gen": gen})
    return out


_KNOWN_TYPES = {4: {0x1F, 0x2A, 0x2B, 0x2C, 0x2D, 0x36, 0x37}, 5: {0x1F, 0xC0}}


def special_header_frames(gen: int, want: int = 6):
    """Well-formed frames (unknown type, delivered as 'unsupported') whose CRC register is exactly 0x0000 / 0xFFFF
    after the header bytes, i.e. at the header / payload boundary, or whose final check value is 0x0000 / 0xFFFF.
    Found by search over from-address, packet id, type and length (one header in 65536 qualifies)."""
    out, found = [], {"b0": 0, "bf": 0}
    for frm in (0x80, 0x90, 0x81, 0xA0, 0x00, 0x55):
        for mtype in range(256):
            if mtype in _KNOWN_TYPES[gen]:
                continue
            for pid in range(256):
                for ln in range(1, 6):
                    hdr = bytes([0xB0, frm, pid, mtype, 0, ln])
                    reg = refproto.crc16_modbus_int(hdr)
                    key = "b0" if reg == 0 else ("bf" if reg == 0xFFFF else None)
                    if key and found[key] < want:
                        found[key] += 1
                        out.append((key, refproto.frame(gen, 0xB0, frm, pid, mtype, bytes((pid + k) & 0xFF for k in range(ln)))))
            if all(v >= want for v in found.values()):
                return out
    return out


def floors(tier: str):
    return {"crc:len1-2": 65792, "pattern:single": 1000, "pattern:double": 1000, "pattern:burst": 1000,
            "e2e:model-error": 100, "e2e:probe-delivered": 100, "e2e:special-check-value:0": 20, "e2e:special-check-value:3": 20,
            "crc:check-value-0000": 100, "e2e:special-header:b0": 8, "e2e:special-header:bf": 8,
            "e2e:send-between-segments": 200, "e2e:damaged-repeat-of-intact-frame": 100}


def gens_first_message(gen: int):
    """One fixed, valid console->client message (a version message) for filler / probe frames."""
    import pyairtouch.at4.comms.x1F_ext as e4
    import pyairtouch.at4.comms.x1FFF30_console_ver as cv4
    import pyairtouch.at5.comms.x1F_ext as e5
    import pyairtouch.at5.comms.x1FFF30_console_ver as cv5
    if gen == 4:
        return e4.ExtendedMessage(cv4.ConsoleVersionMessage(update_available=False, versions=["1.2.3"]))
    return e5.ExtendedMessage(cv5.ConsoleVersionMessage(update_available=False, versions=["1.2.3"]))


def _crc_violation(b: bytes, got, exp):
    raise Violation("C06:crc-value", f"calculate({b.hex()}) = {bytes(got).hex()} but CRC-16/MODBUS is {exp.hex()}",
                    {"part": "crc", "input": b.hex()})


def check_crc(b: bytes, with_validate: bool = True):
    exp = refproto.crc16_modbus(b)
    got = CALC.calculate(b)
    if bytes(got) != exp:
        _crc_violation(b, got, exp)
    if with_validate:
        if CALC.validate(b, exp) is not True:
            raise Violation("C06:validate-true", f"validate({b.hex()}, {exp.hex()}) is not True", {"part": "crc", "input": b.hex()})
        wrong = bytes([exp[0] ^ 0x01, exp[1]])
        wrong2 = bytes([exp[0], exp[1] ^ 0x80])
        for w in (wrong, wrong2):
            if CALC.validate(b, w) is not False:
                raise Violation("C06:validate-false", f"validate({b.hex()}, {w.hex()}) is not False",
                                {"part": "crc", "input": b.hex()})


def check_validate_length(b: bytes):
    exp = refproto.crc16_modbus(b)
    for w in (b"", exp[:1], exp + b"\0"):
        try:
            r = CALC.validate(b, w)
        except ValueError:
            continue
        raise Violation("C06:validate-length", f"validate(.., {w.hex()!r}) returned {r!r} instead of raising ValueError",
                        {"part": "crc-len", "input": b.hex()})


# ---------------------------------------------------------------- (b) error patterns


def covered_span(gen: int, frame: bytes):
    """(start, end) of address..data and of the check bytes inside a frame."""
    start = 2 if gen == 4 else 14
    return start, len(frame) - 2


def flip_bits(buf: bytes, bits) -> bytes:
    """Flip bits given as frame-local indices (byte * 8 + k, k = 0 is the MSB)."""
    b = bytearray(buf)
    for i in bits:
        b[i >> 3] ^= 0x80 >> (i & 7)
    return bytes(b)


def serial_to_bit(pos: int, cov: int) -> int:
    """Map a position in the CRC's own serial order to a frame-local bit index.

    CRC-16/MODBUS is a reflected CRC: data bytes are processed in order, each byte
    least-significant bit first, and the natural continuation of the stream is the
    register low byte then high byte, again LSB first.  The frame carries the check
    value high byte first, so serial positions 8*cov .. 8*cov+7 (register bits 0..7)
    live in the *second* check byte and 8*cov+8 .. 8*cov+15 in the first one.  A burst
    of length <= 16 is guaranteed to be detected only if it is contiguous in this order."""
    if pos < 8 * cov:
        byte, k = divmod(pos, 8)
        return byte * 8 + (7 - k)
    r = pos - 8 * cov            # register bit 0..15
    byte = cov + (1 if r < 8 else 0)
    return byte * 8 + (7 - (r % 8))


def check_patterns(gen: int, kind: str, frame: bytes, rnd_bits, stats: Stats, exhaustive_pairs: bool):
    s, e = covered_span(gen, frame)
    word = frame[s:]  # covered bytes + check bytes
    nbits = len(word) * 8
    cov = len(word) - 2

    def test(bits, fam):
        w = flip_bits(word, bits)
        if CALC.validate(w[:cov], w[cov:]) is not False:
            raise Violation(f"C06:undetected-{fam}", f"validate accepts a frame damaged by {fam} pattern bits={list(bits)}",
                            {"part": "pattern", "gen": gen, "kind": kind, "frame": frame.hex(), "bits": list(bits)})

    n_single = n_double = n_burst = 0
    for i in range(nbits):
        test((i,), "single")
        n_single += 1
    if nbits <= 24 * 8 and exhaustive_pairs:
        for i, j in itertools.combinations(range(nbits), 2):
            test((i, j), "double")
            n_double += 1
    else:
        it = iter(rnd_bits)
        for _ in range(3000):
            try:
                i = next(it) % nbits
                j = next(it) % nbits
            except StopIteration:
                break
            if i != j:
                test((min(i, j), max(i, j)), "double")
                n_double += 1
    it = iter(reversed(rnd_bits))
    for off in range(nbits - 1):
        for ln in range(2, 17):
            if off + ln > nbits:
                break
            try:
                interior = next(it)
            except StopIteration:
                interior = 0
            serial = [off, off + ln - 1] + [off + 1 + k for k in range(ln - 2) if (interior >> k) & 1]
            test(tuple(sorted({serial_to_bit(p, cov) for p in serial})), "burst")
            n_burst += 1
    stats.evaluations += n_single + n_double + n_burst
    stats.nt_disjoint += n_single + n_double + n_burst
    stats.classes["pattern:single"] += n_single
    stats.classes["pattern:double"] += n_double
    stats.classes["pattern:burst"] += n_burst
    stats.classes[f"pattern-kind:{gen}:{kind}"] += 1


# ---------------------------------------------------------------- (c) end to end


def check_e2e(gen: int, frames: list[bytes], victim: int, bits: list[int], probes: list[bytes], stats: Stats | None, split=None):
    case = {"part": "e2e", "gen": gen, "frames": [f.hex() for f in frames], "victim": victim, "bits": bits,
            "probes": [p.hex() for p in probes], "split": split}

    def bad(key, what):
        raise Violation(f"C06:{key}", what, case)

    f = frames[victim]
    s, _ = covered_span(gen, f)
    damaged = f[:s] + flip_bits(f[s:], bits)
    stream = b"".join(frames[:victim]) + damaged + b"".join(frames[victim + 1:])
    model = refproto.parse_stream(gen, stream)
    originals = {bytes(x) for x in frames}
    for fr in model.frames:
        if stream[fr.start:fr.end] not in originals:
            if stats is not None:
                stats.classes["e2e:accidentally-valid(discarded)"] += 1
            return
    rig = SockRig(gen)
    try:
        rig.open()
        tr0 = rig.net.conns[0]
        if split is None:
            tr0.feed(stream)
        else:
            # the stream arrives in two segments and the client transmits a message of its own in between (checking a
            # received frame and producing the check value of a transmitted one must not interfere)
            k = 1 + split % (len(stream) - 1)
            tr0.feed(stream[:k])
            rig.loop.settle()
            rig.send(sockops.build(gen, "ac_req", []))
            rig.loop.settle()
            tr0.feed(stream[k:])
        rig.loop.settle()
        got = [(h.to_address, h.from_address, h.packet_id, h.message_id, h.message_length) for _, h, _ in rig.received]
        exp = [(fr.to, fr.frm, fr.pid, fr.mtype, len(fr.data)) for fr in model.frames]
        if len(got) > len(exp):
            bad("damaged-delivered", f"subscriber received {len(got)} frames, the receive model accepts {len(exp)}: got={got} exp={exp}")
        if got != exp:
            bad("intact-not-delivered", f"delivered {got} != frames accepted by the receive model {exp}")
        classes = []
        if model.error:
            classes.append("e2e:model-error")
            if tr0.alive:
                bad("no-reset", f"receive model finds a {model.error} error but the connection was not closed")
            if len(rig.net.conns) != 2 or not rig.net.conns[1].alive or not rig.sock.is_connected:
                bad("no-reconnect", f"after a {model.error} error no new connection is in place (conns={len(rig.net.conns)})")
            n0 = len(rig.received)
            rig.net.conns[1].feed(b"".join(probes))
            rig.loop.settle()
            if len(rig.received) - n0 != len(probes):
                bad("probe-not-delivered", f"{len(rig.received) - n0} of {len(probes)} intact frames delivered on the new connection")
            classes.append("e2e:probe-delivered")
        elif model.incomplete:
            classes.append("e2e:model-incomplete")
            if not tr0.alive or len(rig.net.conns) != 1:
                bad("spurious-reset", "stream ends inside a (re-framed) frame yet the connection was reset")
        else:
            classes.append("e2e:model-clean")
        if rig.net.max_open > 1:
            bad("two-connections", "more than one connection open at once")
    finally:
        rig.dispose()
    if stats is not None:
        stats.case([stream.hex(), bits], bool(bits) and damaged != f, classes=classes,
                   sample={"gen": gen, "stream": stream.hex()[:300], "victim": victim, "bits": bits,
                           "model": {"frames": len(model.frames), "error": model.error, "incomplete": model.incomplete}})


def _special_bits(gen: int, f: bytes, which: int) -> list[int]:
    """Damage that leads to a special check value: (0) the last two data bytes are replaced so that the CRC computed
    over the damaged bytes is exactly 0x0000 (the received check bytes stay as they were); (1) the received check
    bytes are zeroed; (2) the two received check bytes are swapped; (3) both: computed CRC 0x0000 and received field
    0xFFFF."""
    s, _ = covered_span(gen, f)
    cov, chk = f[s:-2], f[-2:]
    new_cov, new_chk = cov, chk
    hdr_in_cov = 6  # address(2) id type length(2)
    if which in (0, 3) and len(cov) >= hdr_in_cov + 2:
        c = refproto.crc16_modbus_int(cov[:-2])
        new_cov = cov[:-2] + bytes([c & 0xFF, c >> 8])  # residue property: crc(x + crc_le(x)) == 0
        if which == 3:
            new_chk = b"\xff\xff"
    elif which == 1 or which in (0, 3):
        new_chk = b"\x00\x00"
    elif which == 2:
        new_chk = chk[::-1]
    old, new = cov + chk, new_cov + new_chk
    return [i * 8 + k for i in range(len(old)) for k in range(8) if ((old[i] ^ new[i]) >> (7 - k)) & 1]


_pattern = st.one_of(
    st.tuples(st.just("special"), st.integers(0, 3)),
    st.tuples(st.just("single"), st.integers(0, 1 << 20)),
    st.tuples(st.just("double"), st.integers(0, 1 << 20), st.integers(0, 1 << 20)),
    st.tuples(st.just("burst"), st.integers(0, 1 << 20), st.integers(2, 16), st.integers(0, 1 << 14)),
)


def _bits_of(pattern, nbits: int) -> list[int]:
    if pattern[0] == "single":
        return [pattern[1] % nbits]
    if pattern[0] == "double":
        i, j = pattern[1] % nbits, pattern[2] % nbits
        return sorted({i, j})
    _, off, ln, interior = pattern
    ln = min(ln, nbits)
    off = off % (nbits - ln + 1)
    cov = nbits // 8 - 2
    serial = {off, off + ln - 1} | {off + 1 + k for k in range(ln - 2) if (interior >> k) & 1}
    return sorted(serial_to_bit(p, cov) for p in serial)


def _e2e_strategy(gen: int):
    msgs = st.lists(gens.message(gen, direction="s2c"), min_size=2, max_size=5)
    probes = st.lists(gens.message(gen, direction="s2c"), min_size=1, max_size=2)
    return st.tuples(msgs, st.integers(0, 4), _pattern, probes, st.one_of(st.none(), st.none(), st.integers(0, 4000)),
                     st.sampled_from([False, False, False, True]))


def run_shard(spec, seed: int, tier: str):
    stats = Stats(ID)
    part = spec["part"]
    if part == "crc-12":
        for b0 in range(256):
            check_crc(bytes([b0]))
            for b1 in range(256):
                check_crc(bytes([b0, b1]), with_validate=(b1 % 16 == 0))
        for to, frm, pid, mt, data, crc in refproto.VENDOR_AT4 + refproto.VENDOR_AT5:
            check_crc(refproto.body(to, frm, pid, mt, data))
        check_validate_length(b"\x80\xb0\x01\x2b\x00\x00")
        n = 256 + 65536
        stats.evaluations += n
        stats.nt_disjoint += n
        stats.classes["crc:len1-2"] += n
        stats.exhaustive = True
        stats.samples.append({"input": "0000..ffff (all 1- and 2-byte strings)", "crc(0001)": CALC.calculate(b"\0\1").hex()})
    elif part == "crc-3":
        b0 = spec["b0"]
        ref_step = refproto.crc16_modbus_int
        for b1 in range(256):
            reg2 = ref_step(bytes([b0, b1]))
            for b2 in range(256):
                b = bytes([b0, b1, b2])
                r = ref_step(bytes([b2]), reg2)
                if CALC.calculate(b) != bytes([r >> 8, r & 0xFF]):
                    check_crc(b, with_validate=False)
        stats.evaluations += 65536
        stats.nt_disjoint += 65536
        stats.classes["crc:len3"] += 65536
        stats.exhaustive = True
        if b0 == 0:
            stats.samples.append({"input": "000000..00ffff", "note": "all 3-byte strings with first byte 0x00"})
    elif part == "crc-rand":
        def body(case):
            three, longs = case
            for b in three:
                check_crc(b, with_validate=False)
                stats.case(b.hex(), True, classes=["crc:len3-random"])
            for b in longs:
                check_crc(b)
                check_validate_length(b)
                # inputs whose check value is the special 0x0000 (residue property) - and the swapped check value
                c = refproto.crc16_modbus_int(b)
                z = b + bytes([c & 0xFF, c >> 8])
                check_crc(z)
                stats.classes["crc:check-value-0000"] += 1
                exp = refproto.crc16_modbus(b)
                if exp[0] != exp[1] and CALC.validate(b, exp[::-1]) is not False:
                    raise Violation("C06:validate-false", f"validate({b.hex()}, {exp[::-1].hex()}) (check bytes swapped) is not False",
                                    {"part": "crc", "input": b.hex()})
                stats.case(b.hex(), True, classes=["crc:long-random"],
                           sample={"input": b.hex()[:80], "len": len(b), "crc": refproto.crc16_modbus(b).hex()})
        per = 200
        n3 = spec["n3"] // per if spec["n3"] else 0
        strat = st.tuples(st.lists(st.binary(min_size=3, max_size=3), min_size=n3 and per, max_size=n3 and per),
                          st.lists(st.binary(min_size=4, max_size=4096), min_size=1, max_size=4))
        drive(stats, lambda s: given_test(strat, lambda c: stats.guard(body, c), s, max(n3, spec["nlong"] // 3), shrink=True), seed)
        # every length 0..1100 (all prefixes of a generated string): table-driven / blocked / unrolled implementations have
        # their special cases at particular lengths (block multiples, empty tails), which random lengths meet only by luck
        def sweep(b):
            for n in range(len(b) + 1):
                check_crc(b[:n], with_validate=n >= 1)
            stats.classes["crc:every-length-0-1100"] += 1
        drive(stats, lambda s: given_test(st.binary(min_size=1100, max_size=1100), lambda c: stats.guard(sweep, c), s, 3, shrink=False), seed + 1)
        stats.evaluations = sum(v for k, v in stats.classes.items() if k.startswith("crc:"))
    elif part == "patterns":
        gen = spec["gen"]
        kinds = [k for k, (_, d) in gens.KINDS[gen].items() if d == "s2c"]

        def body(case):
            (kind, msg), rnd = case
            frame = console_frames(gen, [msg])[0]
            check_patterns(gen, kind, frame, rnd, stats, exhaustive_pairs=True)
            if len(stats.samples) < 2:
                stats.samples.append({"gen": gen, "kind": kind, "frame": frame.hex()[:200], "bits": len(frame) * 8})
        for kind in kinds:
            strat = st.tuples(gens.message(gen, kinds=[kind]), st.lists(st.integers(0, 1 << 16), min_size=64, max_size=7000))
            drive(stats, lambda s: given_test(strat, lambda c: stats.guard(body, c), s, max(1, spec["n"] // 3), shrink=False),
                  seed + hash(kind) % 1000)
    elif part == "e2e-special-header":
        gen = spec["gen"]
        plain = console_frames(gen, [gens_first_message(gen)], pid0=7)
        probes = console_frames(gen, [gens_first_message(gen)], pid0=200)
        for key, fr in special_header_frames(gen):
            s0, _ = covered_span(gen, fr)
            nbits = (len(fr) - s0) * 8
            for bits in ([], [nbits - 17], [5], [nbits - 1]):     # intact; a data bit; a header bit; a check bit
                stats.guard(check_e2e, gen, plain + [fr] + plain, 1, bits, probes, stats)
            stats.classes[f"e2e:special-header:{key}"] += 1
    elif part == "e2e":
        gen = spec["gen"]

        def body(case):
            msgs, vi, pattern, probes, split, dup = case
            frames = console_frames(gen, [m for _, m in msgs])
            pf = console_frames(gen, [m for _, m in probes], pid0=200)
            victim = vi % len(frames)
            s, _ = covered_span(gen, frames[victim])
            if dup and victim >= 1:
                # the damaged frame is a repeat of the intact frame in front of it (consoles re-broadcast identical status
                # frames); the damage then lies in the address / packet-id bytes or anywhere else
                frames[victim] = frames[victim - 1]
                s, _ = covered_span(gen, frames[victim])
                if pattern[0] in ("single", "double"):
                    pattern = (pattern[0],) + tuple(p % 24 for p in pattern[1:])
                if stats is not None:
                    stats.classes["e2e:damaged-repeat-of-intact-frame"] += 1
            if pattern[0] == "special":
                bits = _special_bits(gen, frames[victim], pattern[1])
                if bits and stats is not None:
                    stats.classes[f"e2e:special-check-value:{pattern[1]}"] += 1
            else:
                bits = _bits_of(pattern, (len(frames[victim]) - s) * 8)
            check_e2e(gen, frames, victim, bits, pf, stats, split=split)
            if split is not None and stats is not None:
                stats.classes["e2e:send-between-segments"] += 1
        drive(stats, lambda s: given_test(_e2e_strategy(gen), lambda c: stats.guard(body, c), s, spec["n"]), seed)
    return stats.result()


def replay(case):
    try:
        if case["part"] in ("crc", "crc-len"):
            b = bytes.fromhex(case["input"])
            check_crc(b)
            check_validate_length(b)
        elif case["part"] == "written":
            console_frames(case["gen"], [ser.from_json(j) for j in case["messages"]], **case.get("kw", {}))
        elif case["part"] == "pattern":
            word_frame = bytes.fromhex(case["frame"])
            s, _ = covered_span(case["gen"], word_frame)
            w = flip_bits(word_frame[s:], case["bits"])
            if CALC.validate(w[:-2], w[-2:]) is not False:
                raise Violation("C06:undetected-replay", "validate accepts the damaged frame", case)
        else:
            check_e2e(case["gen"], [bytes.fromhex(f) for f in case["frames"]], case["victim"], case["bits"],
                      [bytes.fromhex(p) for p in case["probes"]], None, split=case.get("split"))
    except Violation as v:
        return v.as_dict()
    return None
