"""C11 - invalid requests are refused locally; valid ones are shaped as documented.

Engine: exhaustive enumeration over ability bitmaps + Hypothesis @given.

`bitmaps` shards: all 2^5 x 2^7 (AT4) and 2^5 x 2^8 (AT5) ability bitmaps
(thorough: all 12 288; quick: a seed-dependent sample of 1024 per generation),
each through a real handshake with the simulated console; for each: every AcMode
(with and without power_on), AcFanSpeed, AcPowerControl and ZonePowerState on a
zone with / without turbo support and with / without sensor.
`values` shards (Hypothesis): damper -5..105 exhaustive, temperatures on 0.05 and
0.01 grids from min-3 to max+3 incl. exact ties, all four reported (on, off)
timer states x set / clear x both timer types.

Oracle (pav.cmdref, from the *console's* ability / status report, not from the
client's supported_* getters): unsupported value => ValueError and zero bytes
written; supported => no exception and exactly one frame whose independent
reading is as in C04; supported_* getters equal the ability report; set-points on
the resolution grid, within half a step of the request before clamping, inside
[min, max] for ACs (current mode's pair on AT5); zone without sensor =>
ValueError; the other timer's (disabled, hour, minute) in the frame == last
reported.
"""

from __future__ import annotations

import hashlib

from hypothesis import strategies as st

from pav import cmdref, cmdrun, refmodel
from pav import console as con
from pav import refcodec as rc
from pav.harness import Stats, Violation, drive, given_test

ID = "C11"
LEVEL = "exploration"
RULE = ("exhaustive enumeration of ability bitmaps x enum arguments (each bitmap through a real handshake) + Hypothesis "
        "cases for damper / temperature / timer values; non-trivial: an argument outside the advertised set, a temperature "
        "outside [min, max] or on a tie, a damper value outside 0..100, or a timer call with the other timer enabled; "
        "distinct by (bitmap, call) / (installation, call)")
ASSUMPTIONS = ["zone set-points are generated inside 10..35 degC", "timer frames are read with the docstring layout (undocumented messages)"]


def _inst_for_bitmap(gen: int, mbits: int, fbits: int):
    modes = [m for k, m in enumerate(rc.MODE_BITS) if mbits & (1 << k)]
    fans = [f for k, f in enumerate(rc.FAN_BITS4 if gen == 4 else rc.FAN_BITS5) if fbits & (1 << k)]
    ac = {"number": (mbits + fbits) % (4 if gen == 4 else 16), "name": "AC", "modes": modes, "fans": fans, "start": 0, "count": 2}
    if gen == 4:
        ac.update(min_sp=16, max_sp=30, groups=[0, 1])
    else:
        ac.update(min_cool=16, max_cool=30, min_heat=14, max_heat=28)
    inst = {"gen": gen, "form": "bitmap" if gen == 4 else "range", "acs": [ac], "zones": {"0": "A", "1": "B"},
            "version": {"update": False, "versions": ["1.0"]}, "zero_zones": False}
    n = ac["number"]
    if gen == 4:
        acst = dict(number=n, power="on", mode="cool", fan="auto", spill=False, timer_set=False, setpoint_raw=22, temp_raw=730, error_code=0)
        z0 = dict(number=0, power="on", method="temperature", percent=50, low_battery=False, turbo_support=True, setpoint_raw=22,
                  sensor=True, temp_raw=720, spill=False)
        z1 = dict(number=1, power="off", method="damper", percent=100, low_battery=False, turbo_support=False, setpoint_raw=0,
                  sensor=False, temp_raw=None, spill=False)
    else:
        acst = dict(number=n, power="on", mode="cool", fan="auto", setpoint_raw=120, turbo=False, bypass=False, spill=False,
                    timer_set=False, temp_raw=730, error_code=0)
        z0 = dict(number=0, power="on", method="temperature", percent=50, setpoint_raw=120, sensor=True, temp_raw=720, spill=False,
                  low_battery=False)
        z1 = dict(number=1, power="off", method="damper", percent=100, setpoint_raw=None, sensor=False, temp_raw=None, spill=False,
                  low_battery=False)
    state = {"acs": {str(n): acst}, "zones": {"0": z0, "1": z1},
             "timers": {str(n): {"on": {"disabled": True, "hour": 0, "minute": 0}, "off": {"disabled": False, "hour": 6, "minute": 30}}}}
    return inst, state


def enum_calls(inst):
    n = inst["acs"][0]["number"]
    out = [["ac_power", n, p] for p in cmdrun.POWERS]
    out += [["ac_mode", n, m, on] for m in cmdrun.MODES for on in (False, True)]
    out += [["ac_fan", n, f] for f in cmdrun.FANS]
    out += [["zone_power", z, p] for z in (0, 1) for p in cmdrun.ZPOWERS]
    out += [["zone_temp", 0, 21.5], ["zone_temp", 1, 21.5], ["zone_damper", 1, 100], ["zone_damper", 0, 101], ["zone_damper", 1, -1]]
    return out


def run_bitmap(gen: int, mbits: int, fbits: int, stats: Stats | None):
    inst, state = _inst_for_bitmap(gen, mbits, fbits)
    x = cmdrun.CmdRig(ID, inst, state)
    try:
        ac = x.rig.at.air_conditioners[0]
        got_m = {m.name for m in ac.supported_modes}
        got_f = {f.name for f in ac.supported_fan_speeds}
        exp_m = {refmodel.MODE_NAMES[m] for m in inst["acs"][0]["modes"]}
        exp_f = {refmodel.FAN_NAMES[f] for f in inst["acs"][0]["fans"]}
        if got_m != exp_m or got_f != exp_f:
            raise Violation("C11:supported-getters", f"ability bitmap modes={mbits:#x} fans={fbits:#x}: supported_modes={sorted(got_m)} "
                            f"supported_fan_speeds={sorted(got_f)}; the console advertises {sorted(exp_m)} / {sorted(exp_f)}",
                            {"mode": "bitmap", "gen": gen, "mbits": mbits, "fbits": fbits})
        for c in enum_calls(inst):
            try:
                tags = x.call(c)
            except Violation as v:
                v.case = {"mode": "bitmap", "gen": gen, "mbits": mbits, "fbits": fbits}
                raise
            if stats is not None:
                stats.evaluations += 1
                stats.classes[tags[0]] += 1
                if "refused" in tags:
                    stats.nt_disjoint += 1
        if stats is not None:
            stats.classes[f"bitmaps:gen{gen}"] += 1
            if len(stats.samples) < 3 and (mbits + fbits) % 5 == 1:
                stats.samples.append({"gen": gen, "modes_bitmap": mbits, "fans_bitmap": fbits, "calls": len(enum_calls(inst))})
    finally:
        x.dispose()


@st.composite
def _value_case(draw, gen: int):
    inst = draw(con.installation(gen, max_acs=2))
    state = draw(con.full_state(inst))
    ac_ids = [a["number"] for a in inst["acs"]]
    zs = cmdrun.reachable_zones(inst)
    calls = []
    n = draw(st.sampled_from(ac_ids))
    lo, hi = cmdref.ac_limits(inst, state, n)
    temps = draw(st.lists(st.one_of(st.integers(int((lo - 3) * 20), int((hi + 3) * 20)).map(lambda k: k / 20.0),
                                    st.integers(int((lo - 3) * 100), int((hi + 3) * 100)).map(lambda k: k / 100.0)),
                          min_size=5, max_size=40))
    calls += [["ac_temp", n, t] for t in temps]
    for tt in cmdrun.TIMERS:
        calls.append(["timer_time", n, tt, draw(st.integers(0, 23)), draw(st.integers(0, 59))])
        calls.append(["timer_clear", n, tt])
    # any interleaving of the three timer calls on both timers: whatever was called before, the other timer goes out
    # exactly as the console last reported it
    timer_call = st.one_of(
        st.tuples(st.sampled_from(cmdrun.TIMERS), st.integers(0, 1500), st.sampled_from([0, 0, 30_000, 59_999])).map(
            lambda t: ["quick_duration", n, *t]),
        st.tuples(st.sampled_from(cmdrun.TIMERS), st.integers(0, 23), st.integers(0, 59)).map(lambda t: ["timer_time", n, *t]),
        st.sampled_from(cmdrun.TIMERS).map(lambda tt: ["timer_clear", n, tt]))
    calls += draw(st.lists(timer_call, min_size=3, max_size=8))
    if zs:
        z = draw(st.sampled_from(zs))
        calls += [["zone_damper", z, p] for p in range(-5, 106)]
        calls += [["zone_temp", z, draw(st.integers(1000, 3500)) / 100.0] for _ in range(5)]
        # the console's report changes during the session: what is admissible follows the *latest* report
        for _ in range(draw(st.integers(1, 4))):
            calls.append(["push_zone", draw(con.zone_state_strategy(gen, z))])
            calls += [["zone_power", z, p] for p in cmdrun.ZPOWERS]
            calls.append(["zone_temp", z, draw(st.integers(1000, 3500)) / 100.0])
    for _ in range(draw(st.integers(1, 3))):
        # the console reports a timer status and / or an AC status, in either order (the AC status carries a 'timer set'
        # flag of its own; the timers to preserve are those of the latest TIMER status, whatever that flag says)
        order = draw(st.sampled_from(["ac,timer", "timer,ac", "ac", "timer", "timer,ac,ac"]))
        for what in order.split(","):
            if what == "ac":
                calls.append(["push_ac", draw(con.ac_state_strategy(gen, n))])
            else:
                calls.append(["push_timer", n, draw(con.timer_strategy)])
        calls += [["ac_temp", n, t] for t in temps[:6]]
        calls += draw(st.lists(timer_call, min_size=2, max_size=5))
    return {"mode": "values", "inst": inst, "state": state, "calls": calls}


def _push(x, state, c):
    """The console reports a new status (the client's view of what is admissible must follow it)."""
    w = x.rig.console.w
    tr = x.rig.net.current
    x.done.append(c)
    if c[0] == "push_zone":
        rec = c[1]
        state["zones"][str(rec["number"])] = dict(rec)
        x.rig.console.state["zones"][str(rec["number"])] = dict(rec)
        x.rig.console.feed(tr, w.zone_status([rec]), label="push:zone_status")
    elif c[0] == "push_ac":
        rec = c[1]
        state["acs"][str(rec["number"])] = dict(rec)
        x.rig.console.state["acs"][str(rec["number"])] = dict(rec)
        x.rig.console.feed(tr, w.ac_status([rec]), label="push:ac_status")
    else:
        n, t = c[1], c[2]
        state["timers"][str(n)] = t
        x.rig.console.state["timers"][str(n)] = t
        full = {str(k): (t if k == n else state["timers"].get(str(k), {"on": {"disabled": False, "hour": 0, "minute": 0},
                                                                   "off": {"disabled": False, "hour": 0, "minute": 0}}))
                for k in (range(4) if x.gen == 4 else [n])}
        for k, v in full.items():
            if k in state["timers"]:
                state["timers"][k] = v
        x.rig.console.feed(tr, w.timer_status(full), label="push:timer_status")
    x.rig.loop.settle()


def run_values(case, stats: Stats | None):
    import copy
    inst, state = case["inst"], copy.deepcopy(case["state"])
    x = cmdrun.CmdRig(ID, inst, state)
    try:
        for c in case["calls"]:
            if c[0].startswith("push_"):
                _push(x, state, c)
                x.console_reported()
                if stats is not None:
                    stats.classes["status-push"] += 1
                continue
            try:
                tags = x.call(c)
            except Violation as v:
                v.case = dict(case, calls=list(x.done))
                raise
            if stats is not None:
                nt = "refused" in tags
                if c[0] == "ac_temp":
                    lo, hi = cmdref.ac_limits(inst, state, c[1])
                    nt = c[2] < lo or c[2] > hi or abs(c[2] * 10 % 1 - 0.5) < 1e-6
                    stats.classes["temp-outside-limits" if (c[2] < lo or c[2] > hi) else "temp-inside"] += 1
                if c[0].startswith("timer_"):
                    other = "off" if c[2] == "ON_TIMER" else "on"
                    nt = not state["timers"][str(c[1])][other]["disabled"]
                    stats.classes["timer-other-enabled" if nt else "timer-other-disabled"] += 1
                stats.case([inst["gen"], c, inst["acs"]], nt, classes=tags + [f"call:{c[0]}"],
                           sample={"gen": inst["gen"], "call": c, "outcome": tags[0]})
    finally:
        x.dispose()


def _bitmap_list(gen: int, seed: int, tier: str):
    nf = 7 if gen == 4 else 8
    allb = [(m, f) for m in range(32) for f in range(1 << nf)]
    if tier != "quick":
        return allb
    allb.sort(key=lambda mf: hashlib.blake2b(f"{seed}/{gen}/{mf}".encode(), digest_size=8).digest())
    return allb[:1024]


def shards(tier: str):
    out = []
    for gen in (4, 5):
        for k in range(8):
            out.append({"part": "bitmaps", "gen": gen, "k": k, "of": 8})
        for k in range(2 if tier == "quick" else 8):
            out.append({"part": "values", "gen": gen, "n": 60 if tier == "quick" else 300, "k": k})
    return out


def floors(tier: str):
    return {"refused": 2000, "accepted": 2000, "temp-outside-limits": 100, "timer-other-enabled": 50, "call:zone_damper": 1000, "status-push": 100}


def run_shard(spec, seed: int, tier: str):
    import os
    stats = Stats(ID)
    gen = spec["gen"]
    if spec["part"] == "bitmaps":
        base = int(os.environ.get("VERIF_SEED", "1") or "1")
        lst = _bitmap_list(gen, base, tier)[spec["k"]::spec["of"]]
        for m, f in lst:
            stats.guard(run_bitmap, gen, m, f, stats)
        stats.exhaustive = tier != "quick"
    else:
        drive(stats, lambda s: given_test(_value_case(gen), lambda c: stats.guard(run_values, c, stats), s, spec["n"]), seed)
    return stats.result()


def coverage_extra(tier: str):
    return {"bitmap_space": "AT4 32 x 128 = 4096, AT5 32 x 256 = 8192 ability bitmaps; thorough enumerates all 12 288, "
                            "quick a VERIF_SEED-dependent sample of 1024 per generation"}


def replay(case):
    try:
        if case["mode"] == "bitmap":
            run_bitmap(case["gen"], case["mbits"], case["fbits"], None)
        else:
            run_values(case, None)
    except Violation as v:
        return v.as_dict()
    return None
