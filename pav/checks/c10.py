"""C10 - the object model always shows the console's latest report.

Engine: Hypothesis @given over operation lists (frames as operations) on an initialised client (both
generations) against the simulated console.  After a handshake: sequences of AC
status, zone/group status, timer status, error-info and version frames in any
entity order, with repeats, partial frames (subset of entities), unknown entity
ids, over the full cross product of *defined* values: power (2 / 5), mode (7),
fan (7 / 13), flags, set-points and temperatures on the raw grid incl. the
sentinels for which the data model has an absent value, timers enabled/disabled
x hour x minute, error code 0 / non-zero with the console answering the
resulting error-info request with text / empty text / not at all.

Oracle: after every frame, every public getter of the AirTouch, each AC and each
zone == reference model (pav.refmodel) of the console's latest report for that
entity.  In particular AUTO_HEAT/AUTO_COOL -> selected AUTO, active HEAT/COOL;
intelligent-auto 9..14 -> selected INTELLIGENT_AUTO, active QUIET..TURBO; AT5
limits follow the current mode; error_info is None whenever the code is 0 and
carries (code, latest text) otherwise; next_quick_timer; spill/bypass (both set:
either accepted).  No getter raises for a defined value.
"""

from __future__ import annotations

from hypothesis import strategies as st
from hypothesis.stateful import RuleBasedStateMachine, rule

from pav import apiops
from pav import console as con
from pav.harness import Stats, Violation, drive, given_test

ID = "C10"
LEVEL = "exploration"
RULE = ("Hypothesis-generated (installation, initial state, list of console push operations) histories on an initialised "
        "client; after every frame all getters are compared with the reference model.  Non-trivial: >= 3 frames for one "
        "entity, or a partial frame, or an auto / intelligent-auto value, or an unknown entity id; distinct by history")
ASSUMPTIONS = [
    "only defined protocol values are generated (undefined codes are C05/C17)",
    "error descriptions: the expected text is the latest error text the console sent for that AC (solicited or not), cleared by a changed status report with code 0",
]


@st.composite
def _history(draw, gen: int, max_ops: int):
    inst = draw(con.installation(gen))
    state = draw(con.full_state(inst))
    ops = draw(st.lists(apiops.frame_ops(inst), min_size=3, max_size=max_ops))
    # bias: repeat some frames verbatim / re-send with one attribute changed
    reps = draw(st.lists(st.integers(0, 1000), max_size=6))
    for r in reps:
        if ops:
            i = r % len(ops)
            if ops[i][0] in ("ac_status", "zone_status", "timer_status", "version"):
                ops.insert(min(len(ops), i + 1 + (r // 7) % 3), ops[i])
    # error life-cycle stories on one AC (one history in two): status reports whose error code moves between 0 and two
    # non-zero codes while the other attributes either stay or change, unsolicited error texts (also while no error is
    # reported), and the console answering / not answering the resulting requests
    if draw(st.integers(0, 1)) == 0:
        n = draw(st.sampled_from([a["number"] for a in inst["acs"]]))
        base = [draw(con.ac_state_strategy(gen, n)), draw(con.ac_state_strategy(gen, n))]
        codes = draw(st.lists(st.sampled_from([0, 0, 0x0101, 0xFFFE]), min_size=3, max_size=8))
        etext = st.text(st.characters(min_codepoint=0x20, max_codepoint=0x7E), min_size=1, max_size=12)
        story = [["error_mode", draw(st.sampled_from(["text", "silent", "silent", "empty"])), {str(n): draw(etext)}]]
        if draw(st.booleans()):
            # "blip": a description arrives while no error is reported (the late answer to a request for an error that
            # has already cleared), the no-error status changes, then an unrelated error appears and the console is slow
            # to describe it
            story += [["ac_status", [dict(base[0], error_code=0)]], ["error_info", n, draw(etext)],
                      ["ac_status", [dict(base[1], error_code=0)]], ["error_mode", "silent", {}],
                      ["ac_status", [dict(base[draw(st.integers(0, 1))], error_code=draw(st.sampled_from([0x0101, 0xFFFE])))]]]
        for c in codes:
            story.append(["ac_status", [dict(base[draw(st.integers(0, 1))], error_code=c)]])
            k = draw(st.integers(0, 3))
            if k == 0:
                story.append(["error_info", n, draw(st.one_of(st.none(), etext))])
            elif k == 1:
                story.append(["error_mode", draw(st.sampled_from(["text", "silent", "empty"])), {str(n): draw(etext)}])
        at = draw(st.integers(0, len(ops)))
        ops[at:at] = story
    # one history in five: somewhere in the middle the application reloads the client (shutdown + init on the same object)
    if draw(st.integers(0, 4)) == 0:
        ops.insert(draw(st.integers(0, len(ops))), ["reinit"])
    return {"inst": inst, "state": state, "ops": ops}


def run_history(case, stats: Stats | None):
    x = apiops.ApiInterp(ID, case["inst"], case["state"])
    try:
        for op in case["ops"]:
            x.do(op)
        if stats is not None:
            if any(v >= 3 for v in x.entity_frames.values()):
                x.nt.add("three-frames-one-entity")
            nt = bool(x.nt & {"three-frames-one-entity", "partial-frame", "auto-variant", "unknown-entity"})
            vals = set()
            for op in case["ops"]:
                if op[0] == "ac_status":
                    for r in op[1]:
                        vals.add(f"mode:{r['mode']}")
                        vals.add(f"fan:{r['fan']}")
                        vals.add(f"power:{r['power']}")
            stats.case(case, nt, classes=sorted(x.nt) + sorted(vals) + [f"gen{x.gen}"],
                       sample={"gen": x.gen, "acs": len(case["inst"]["acs"]), "zones": len(case["inst"]["zones"]),
                               "ops": [[o[0]] if len(o) < 2 else
                                       [o[0], (o[1] if o[0] in ("version", "error_info", "unknown") else
                                               (len(o[1]) if isinstance(o[1], (list, dict)) else o[1]))] for o in case["ops"]][:20]})
    finally:
        x.dispose()


def run_twin(case, stats: Stats | None):
    """Two clients of the same generation in one process, each against its own console and installation, driven in
    lock step: each model must follow its own console only (no state shared through classes or module globals)."""
    from pav import fakenet
    a, b = case["twin"]
    xs = []
    try:
        try:
            for c in (a, b):
                xs.append(apiops.ApiInterp(ID, c["inst"], c["state"]))
            for x in xs:
                fakenet._CURRENT[0] = x.rig.net
                x.check_model("after both clients were initialised")
            for i in range(max(len(a["ops"]), len(b["ops"]))):
                for x, c in zip(xs, (a, b)):
                    if i < len(c["ops"]):
                        fakenet._CURRENT[0] = x.rig.net
                        x.do(c["ops"][i])
                for x in xs:
                    fakenet._CURRENT[0] = x.rig.net
                    x.check_model(f"after step {i} of the other client")
        except Violation as v:
            v.case = case
            v.what = "two clients in one process: " + v.what
            raise
        if stats is not None:
            stats.case(case, True, classes=["twin-clients", f"gen{xs[0].gen}"],
                       sample={"gen": xs[0].gen, "acs": [len(a["inst"]["acs"]), len(b["inst"]["acs"])],
                               "ops": [len(a["ops"]), len(b["ops"])]})
    finally:
        for x in xs:
            x.dispose()


def shards(tier: str):
    n, reps, mx = (120, 8, 30) if tier == "quick" else (600, 16, 80)
    out = [{"gen": g, "n": n, "k": k, "max_ops": mx} for g in (4, 5) for k in range(reps)]
    out += [{"gen": g, "n": n // 3, "k": k, "max_ops": mx // 2, "twin": True} for g in (4, 5) for k in range(2)]
    return out


def floors(tier: str):
    f = {"partial-frame": 50, "auto-variant": 50, "three-frames-one-entity": 50, "twin-clients": 60, "reinit": 100}
    for m in ("auto", "heat", "dry", "fan", "cool", "auto_heat", "auto_cool"):
        f[f"mode:{m}"] = 20
    for fan in ("ia_quiet", "ia_turbo", "turbo", "auto"):
        f[f"fan:{fan}"] = 10
    return f


def run_shard(spec, seed: int, tier: str):
    stats = Stats(ID)
    if spec.get("twin"):
        twin = st.tuples(_history(spec["gen"], spec["max_ops"]), _history(spec["gen"], spec["max_ops"])).map(lambda t: {"twin": list(t)})
        drive(stats, lambda s: given_test(twin, lambda c: stats.guard(run_twin, c, stats), s, spec["n"]), seed)
    else:
        drive(stats, lambda s: given_test(_history(spec["gen"], spec["max_ops"]), lambda c: stats.guard(run_history, c, stats), s, spec["n"]), seed)
    return stats.result()


def replay(case):
    try:
        if "twin" in case:
            run_twin(case, None)
        elif "ops" in case and case["ops"] and case["ops"][0][0] == "init":
            inst, state, ops = case["ops"][0][1], case["ops"][0][2], case["ops"][1:]
            run_history({"inst": inst, "state": state, "ops": ops}, None)
        else:
            run_history(case, None)
    except Violation as v:
        return v.as_dict()
    return None
