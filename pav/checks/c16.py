"""C16 - pending-message buffer is bounded and overflow is explicit.

Engine: RuleBasedStateMachine on a socket whose link is down (connection attempts
refused), plus never-opened and closed sockets.

Rules: send with lifetimes from {1/8, 1, 2, 30}, clock advances from
{0, 1/8, 1, 2, 29, 30} (exact expiry instants included), send on a never-opened /
closed socket, finally a connection.

Oracle (model = list of unexpired entries): `send` raises QueueOverflowError iff
the model holds 10 unexpired entries at that instant (expired ones purged first)
and then the model is unchanged; raises NotOpenError iff the socket is not open,
holding nothing; otherwise returns.  On connection exactly the model's unexpired
entries appear on the wire, in order, once each; nothing expired is ever
transmitted.
"""

from __future__ import annotations

from hypothesis import strategies as st
from hypothesis.stateful import RuleBasedStateMachine, rule

import pyairtouch.comms.socket as sockmod

from pav import refproto, sockops
from pav.harness import Stats, Violation, drive, machine_test
from pav.rig import SockRig

ID = "C16"
LEVEL = "exploration"
RULE = ("stateful generation: sends with mixed lifetimes and clock advances on a socket whose connection attempts are "
        "refused, then a connection; also never-opened / closed sockets.  Non-trivial: the history reached 10 pending "
        "entries, or an entry expired before the connection, or a send hit a closed socket; distinct by operation trace"
        " Also: a write failure while connected followed by a burst of sends from a connection subscriber (the held retry counts; it may be the only short-lived entry); a console that accepts but does not read, so that the flush on connection stalls behind its first frame for 1/8..29 s while entries behind it expire.")
ASSUMPTIONS = ["a message whose lifetime has exactly elapsed (now == accept + lifetime) counts as expired (statement: 'never at or after its lifetime has elapsed')"]

LIFETIMES = [0.125, 1.0, 2.0, 30.0]
ADVANCES = [0.0, 0.125, 1.0, 2.0, 29.0, 30.0, 0.875, 27.875]
CAP = 10


class Interp:
    def __init__(self, gen: int, opened: bool, refuse_latency: float = 0.0) -> None:
        self.gen = gen
        self.rig = SockRig(gen)
        # connection attempts are refused after `refuse_latency` seconds: with a non-zero latency sends land both
        # while an attempt is in flight and during the 2 s back-off
        self.rig.net.default = ("refuse", refuse_latency)
        self.refuse_latency = refuse_latency
        self.ops = [["init", gen, opened, refuse_latency]]
        self.open = False
        self.model: list = []  # dict(exp, expiry, kind)
        self.expect_wire: list = []
        self.nt: set = set()
        self.connected_phase = False
        if opened:
            self.rig.open()
            self.open = True

    def case(self):
        return {"ops": self.ops}

    def bad(self, key, what):
        raise Violation(f"C16:{key}", what, self.case())

    def purge(self):
        now = self.rig.loop.time()
        before = len(self.model)
        self.model = [m for m in self.model if now < m["expiry"]]
        if len(self.model) != before:
            self.nt.add("expired-before-connection")

    def do(self, op):
        self.ops.append(op)
        getattr(self, "op_" + op[0])(*op[1:])
        self.check_wire()

    def op_init(self, *a):
        pass

    def op_send(self, kind, params, retries, lifetime):
        msg = sockops.build(self.gen, kind, params)
        mtype, data = sockops.expect(self.gen, kind, params)
        pol = sockmod.RetryPolicy(max_retries=retries, max_lifetime=lifetime)
        now = self.rig.loop.time()
        self.purge()
        r = self.rig.loop.call(self.rig.sock.send(msg, pol))
        if not self.open:
            self.nt.add("send-not-open")
            if r[0] != "raise" or not isinstance(r[1], sockmod.NotOpenError):
                self.bad("not-open", f"send on a socket that is not open: {r!r} instead of NotOpenError")
            return
        if self.connected_phase:
            if r[0] != "ok":
                self.bad("send-connected", f"send while connected: {r!r}")
            self.expect_wire.append({"exp": (mtype, data), "kind": kind})
            return
        if len(self.model) >= CAP:
            self.nt.add("overflow")
            if r[0] != "raise" or not isinstance(r[1], sockmod.QueueOverflowError):
                self.bad("no-overflow-error", f"eleventh unexpired message: {r!r} instead of QueueOverflowError "
                                              f"(model holds {len(self.model)} unexpired entries)")
            return
        if r[0] != "ok":
            self.bad("spurious-error", f"send with {len(self.model)} unexpired entries held: {r!r}")
        self.model.append({"exp": (mtype, data), "expiry": now + lifetime, "kind": kind})
        if len(self.model) == CAP:
            self.nt.add("reached-capacity")

    def op_fault_burst(self, kind, params, retries, lifetime, burst):
        """The link is up; the write of a message fails (so the message is held for a retry if it has retries left)
        and a connection subscriber reacts to the loss of the connection by sending a burst of messages; every
        reconnection attempt is refused from then on."""
        rig, loop = self.rig, self.rig.loop
        rig.net.default = ("accept", 0.0)
        rig.open()
        self.open = True
        for _ in range(40):
            if rig.sock.is_connected:
                break
            loop.advance(0.125)
        if not rig.sock.is_connected:
            self.bad("no-connection", "client did not connect to an accepting network")
        rig.net.default = ("refuse", self.refuse_latency)
        rig.net.current.fail_write(1)
        results, fired = [], []

        async def on_conn(*, connected: bool) -> None:
            if connected or fired:
                return
            fired.append(loop.time())
            for (k, p, life) in burst:
                try:
                    await rig.sock.send(sockops.build(self.gen, k, p), sockmod.RetryPolicy(max_retries=0, max_lifetime=life))
                    results.append(("ok", None, loop.time()))
                except Exception as exc:  # noqa: BLE001 - judged below
                    results.append(("raise", exc, loop.time()))
        rig.sock.subscribe_on_connection_changed(on_conn)
        now = loop.time()
        mtype, data = sockops.expect(self.gen, kind, params)
        task = loop.spawn(rig.sock.send(sockops.build(self.gen, kind, params),
                                        sockmod.RetryPolicy(max_retries=retries, max_lifetime=lifetime)))
        loop.settle()
        if not task.done() or task.exception() is not None:
            self.bad("send-connected", f"send into a failing write: {task!r}")
        if not fired or len(results) != len(burst):
            self.bad("no-disconnect-notification", "the write failure was not followed by a 'disconnected' notification "
                                                   "(or the subscriber's sends did not return)")
        self.nt.add("burst-after-write-failure")
        if retries >= 1:
            self.model.append({"exp": (mtype, data), "expiry": now + lifetime, "kind": kind})
            self.nt.add("retry-held")
        for (k, p, life), (res, exc, t) in zip(burst, results):
            self.model = [m for m in self.model if t < m["expiry"]]
            if len(self.model) >= CAP:
                self.nt.add("overflow")
                if res != "raise" or not isinstance(exc, sockmod.QueueOverflowError):
                    self.bad("no-overflow-error", f"eleventh unexpired message (sent from a connection subscriber right after a "
                                                  f"failed write, {retries} retries left on the failed message): {res} {exc!r} "
                                                  f"instead of QueueOverflowError")
                continue
            if res != "ok":
                self.bad("spurious-error", f"send with {len(self.model)} unexpired entries held: {exc!r}")
            self.model.append({"exp": sockops.expect(self.gen, k, p), "expiry": t + life, "kind": k})
            if len(self.model) == CAP:
                self.nt.add("reached-capacity")

    def op_advance(self, dt):
        self.rig.loop.advance(dt)

    def op_close(self):
        r = self.rig.close()
        if r[0] != "ok":
            self.bad("close", f"close(): {r!r}")
        self.open = False
        self.model = []

    def op_connect(self, hold=0.0):
        """The network starts accepting; wait for the client's next attempt.
        hold > 0: the console accepts but does not read - the first frame of the flush is taken, its drain() blocks for
        `hold` seconds, and the entries behind it are looked at only then: those whose lifetime ran out meanwhile must not go out."""
        if not self.open:
            return
        self.rig.net.default = ("accept", 0.0)
        if hold:
            self.rig.net.pause_on_accept.append(1)
        loop = self.rig.loop
        for _ in range(80):
            if self.rig.sock.is_connected:
                break
            loop.advance(0.125)
        if not self.rig.sock.is_connected:
            self.bad("no-connection", "client did not connect within 10 s of the network accepting")
        # entries alive at the instant of connection
        t_open = [e[0] for e in self.rig.net.log if e[1] == "open"][-1]
        alive = [m for m in self.model if t_open < m["expiry"]]
        if len(alive) != len(self.model):
            self.nt.add("expired-before-connection")
        if hold:
            tr = self.rig.net.current
            self.rig.net.pause_on_accept.clear()
            if tr is not None and tr.write_paused and alive:
                loop.advance(hold)
                t_rel = loop.time()
                tr.pause_after = None
                tr.resume_writing()
                loop.settle()
                late = [m for m in alive[1:] if not (t_rel < m["expiry"])]
                alive = alive[:1] + [m for m in alive[1:] if t_rel < m["expiry"]]
                self.nt.add("flush-stalled-on-connection")
                if late:
                    self.nt.add("expired-during-a-stalled-flush")
            elif tr is not None:
                tr.pause_after = None
        self.expect_wire = [{"exp": m["exp"], "kind": m["kind"]} for m in alive]
        self.model = []
        self.connected_phase = True
        self.nt.add("connected")

    def check_wire(self):
        frames = []
        for tr in self.rig.net.conns:
            pr = refproto.parse_stream(self.gen, tr.tx_bytes())
            if pr.error or pr.incomplete:
                self.bad("stream-not-frames", "bytes written do not parse as whole frames")
            frames += pr.frames
        if not self.connected_phase:
            if frames:
                self.bad("write-while-down", "frames written while no connection exists")
            return
        got = [(f.mtype, f.data) for f in frames]
        exp = [e["exp"] for e in self.expect_wire]
        if got != exp:
            self.bad("wire-differs", f"on connection the wire carries {[(hex(t), d.hex()) for t, d in got]} but the unexpired "
                                     f"pending entries are {[(hex(t), d.hex()) for t, d in exp]}")

    def dispose(self):
        self.rig.dispose()


def make_machine(gen: int, stats: Stats):
    class Machine(RuleBasedStateMachine):
        def __init__(self):
            super().__init__()
            self.x = None
            self.dead = False

        def _ensure(self, opened=True, lat=0.0):
            if self.x is None:
                self.x = Interp(gen, opened, lat)
                if lat:
                    self.x.nt.add("attempt-in-flight")

        def _do(self, op):
            if self.dead or stats.bail:
                return
            try:
                self.x.do(op)
            except Violation as v:
                self.dead = True
                if stats.filter(v):
                    raise

        @rule(opened=st.sampled_from([True, True, True, True, False]), lat=st.sampled_from([0.0, 0.0, 0.5, 3.0]))
        def start(self, opened, lat):
            self._ensure(opened, lat)

        @rule(kp=sockops.kind_and_params(gen), retries=st.integers(0, 2), lifetime=st.sampled_from([2.0, 30.0]),
              burst=st.lists(st.tuples(sockops.kind_and_params(gen), st.sampled_from([2.0, 30.0, 30.0])), min_size=8, max_size=13),
              lat=st.sampled_from([0.0, 0.5]))
        def start_with_failed_write(self, kp, retries, lifetime, burst, lat):
            if self.x is None:
                self.x = Interp(gen, False, lat)
                items = [[b[0][0], b[0][1], b[1]] for b in burst]
                if retries and len(burst) % 3 == 0:
                    # the message held for a retry is the only short-lived one: it expires alone while the rest stay
                    lifetime = 2.0
                    items = [[k, p, 30.0] for k, p, _l in items]
                self._do(["fault_burst", kp[0], kp[1], retries, lifetime, items])
                if retries and len(burst) % 3 == 0:
                    self._do(["advance", 2.0])
                    self._do(["send", kp[0], kp[1], 0, 30.0])

        @rule(kp=sockops.kind_and_params(gen), retries=st.integers(0, 3), lifetime=st.sampled_from(LIFETIMES))
        def send(self, kp, retries, lifetime):
            self._ensure()
            self._do(["send", kp[0], kp[1], retries, lifetime])

        @rule(kps=st.lists(sockops.kind_and_params(gen), min_size=6, max_size=12), lifetime=st.sampled_from([2.0, 30.0, 30.0]))
        def fill(self, kps, lifetime):
            self._ensure()
            for kp in kps:
                self._do(["send", kp[0], kp[1], 0, lifetime])

        @rule(dt=st.sampled_from(ADVANCES))
        def advance(self, dt):
            self._ensure()
            self._do(["advance", dt])

        @rule()
        def close(self):
            self._ensure()
            if self.x.open and not self.x.connected_phase:
                self._do(["close"])

        @rule(hold=st.sampled_from([0.0, 0.125, 1.0, 2.0, 2.0, 29.0, 29.0]))
        def connect(self, hold):
            self._ensure()
            if not self.x.connected_phase:
                self._do(["connect", hold] if hold else ["connect"])

        def teardown(self):
            if self.x is None:
                return
            try:
                if not self.dead and not stats.bail:
                    if self.x.open and not self.x.connected_phase:
                        self._do(["connect"])
                    nt = bool(self.x.nt - {"connected"})
                    stats.case(self.x.ops, nt, classes=sorted(self.x.nt) + [f"gen{gen}"],
                               sample={"gen": gen, "ops": self.x.ops[:14], "n_ops": len(self.x.ops)})
            finally:
                self.x.dispose()

    return Machine


def shards(tier: str):
    n, steps, reps = (150, 30, 8) if tier == "quick" else (800, 60, 16)
    return [{"gen": g, "n": n, "steps": steps, "k": k} for g in (4, 5) for k in range(reps)]


def floors(tier: str):
    return {"overflow": 40, "expired-before-connection": 40, "flush-stalled-on-connection": 80, "expired-during-a-stalled-flush": 15, "send-not-open": 20, "connected": 200, "attempt-in-flight": 50,
            "burst-after-write-failure": 30, "retry-held": 15}


def run_shard(spec, seed: int, tier: str):
    stats = Stats(ID)
    drive(stats, lambda s: machine_test(make_machine(spec["gen"], stats), s, spec["n"], spec["steps"]), seed)
    return stats.result()


def replay(case):
    ops = case["ops"]
    x = Interp(ops[0][1], ops[0][2], ops[0][3] if len(ops[0]) > 3 else 0.0)
    try:
        for op in ops[1:]:
            x.do(op)
    except Violation as v:
        return v.as_dict()
    finally:
        x.dispose()
    return None
