"""C08 - heartbeat detects a dead link, and only a dead link.

Hypothesis @given answer patterns on an initialised client (both generations)
and on a bare HeartbeatManager with custom HeartbeatConfig (interval, timeout).

Generated: N in 2..12 consecutive heartbeats; per heartbeat the console answers
after d in [0, 30) (dyadic), late (d in {30+1/8, 45, 200, 329, 331}) or never;
silence onset at the first heartbeat, after a response, after a previous
timeout reset; unsolicited version frames; custom (interval, timeout) pairs with
timeout > interval.  Virtual time covers N x interval + 700 s.

Oracle (reference timeline, computed independently): a version request is
observed at t0 + k x interval for every k while connected (t0 = instant the
monitoring started) and nowhere else; deadline D = L + timeout with L = start of
monitoring, later the arrival of the last version response, later the instant of
the last timeout; if no response arrived in (L, D) and the client is connected at
D then a close by the client is observed at D followed by a new connection in the
same instant; L := D.  No other close is ever observed; in particular while
every heartbeat is answered within 30 s: zero closes.  Cases in which a response
or a heartbeat coincides exactly with a deadline are unspecified and discarded
(counted).
"""

from __future__ import annotations

from hypothesis import strategies as st

import pyairtouch.comms.heartbeat as hbmod

from pav import console as con
from pav import harness, refcodec, refproto, sockops
from pav.harness import Stats, Violation, drive, given_test
from pav.rig import ApiRig, SockRig

ID = "C08"
LEVEL = "exploration"
RULE = ("Hypothesis-generated answer patterns over N consecutive heartbeats (prompt / late / never, unsolicited "
        "responses) for both generations and for custom (interval, timeout) configurations; observed request and reset "
        "instants are compared with an independent timeline model.  Non-trivial: at least one heartbeat unanswered or "
        "late beyond the deadline, or >= 4 answered in a row with non-zero delays; distinct by pattern")
ASSUMPTIONS = ["exact coincidences of a response / heartbeat with a deadline are discarded (unspecified order within one instant)",
               "reconnection after a reset is immediate (network accepts with zero latency)"]

LATE = [30.125, 45.0, 200.0, 329.0, 331.0]


def _delay():
    prompt = st.integers(0, 239).map(lambda n: n / 8.0)           # [0, 30) on the 1/8 grid
    return st.one_of(prompt, prompt, prompt, st.sampled_from(LATE), st.none())


@st.composite
def _pattern(draw):
    n = draw(st.integers(2, 12))
    shape = draw(st.sampled_from(["free", "free", "all-prompt", "silent-from-k", "silent-then-back"]))
    prompt = st.integers(0, 239).map(lambda x: x / 8.0)
    if shape == "all-prompt":
        ds = [draw(prompt) for _ in range(n + 3)]
    elif shape == "silent-from-k":
        k = draw(st.integers(0, n))
        ds = [draw(prompt) for _ in range(k)] + [None] * (n + 3 - k)
    elif shape == "silent-then-back":
        k = draw(st.integers(0, n - 1))
        m = draw(st.integers(1, 4))
        ds = [draw(prompt) for _ in range(k)] + [None] * m + [draw(prompt) for _ in range(n + 3)]
    else:
        ds = [draw(_delay()) for _ in range(n + 3)]
    uns = draw(st.lists(st.integers(1, (n * 300 + 600) * 8).map(lambda x: x / 8.0), max_size=3))
    # decoys: other frames (extended error info, status) the console sends; they are not heartbeat responses
    decoys = draw(st.lists(st.tuples(st.integers(1, (n * 300 + 600) * 8).map(lambda x: x / 8.0), st.integers(0, 2)).map(list), max_size=6))
    # outages: the peer resets the link 1.5 s before heartbeat k and refuses one reconnection attempt,
    # so the client is disconnected at the heartbeat instant and back 0.5 s later
    outs = sorted(draw(st.sets(st.integers(1, n), max_size=2)))
    # the pattern is applied either to a fresh client or after shutdown() + init() of the same object
    reinit = draw(st.integers(0, 3)) == 0
    # kind of outage: a peer reset 1.5 s before the heartbeat with one refused reconnection, or a peer close 1/16 s
    # before it with a close that takes 1/8 s (the heartbeat instant falls inside the window in which the client is
    # still closing the old stream), reconnection at once
    okind = draw(st.sampled_from(["reset", "reset", "slow-eof"]))
    return {"n": n, "delays": ds[: n + 3], "unsolicited": sorted(uns), "shape": shape, "decoys": sorted(decoys), "outages": outs,
            "reinit": reinit, "outage_kind": okind}


def timeline(t0: float, interval: float, timeout: float, delays, unsolicited, t_end: float, outages=()):
    """Independent model.  Returns (request_times, reset_times) or None for a tie.

    outages: (start, end) intervals during which the client is disconnected."""
    slots = []
    k = 0
    while t0 + k * interval <= t_end:
        slots.append(t0 + k * interval)
        k += 1

    def down(t):
        return any(s <= t < e for s, e in outages)
    req = [r for r in slots if not down(r)]
    arrivals = []
    for i, r in enumerate(req):          # the console answers the i-th request it receives
        d = delays[i] if i < len(delays) else 0.0
        if d is not None:
            arrivals.append((r + d, r))
    resets = []
    L = t0
    while True:
        D = L + timeout
        if D > t_end:
            break
        valid = []
        for a, r in arrivals:
            drops = resets + [o[0] for o in outages]
            if any(r < x < a for x in drops):
                continue  # answer was in flight on a connection that has been dropped
            if any(x == r or x == a for x in drops) or down(a):
                return None
            if a == D:
                return None
            if L < a < D:
                valid.append(a)
        for u in unsolicited:
            if u == D or u in resets or any(u == o[0] or u == o[1] for o in outages):
                return None
            if L < u < D and not down(u):
                valid.append(u)
        if D in slots or any(D == o[0] or D == o[1] for o in outages):
            return None  # heartbeat / link event exactly when the deadline fires: order unspecified
        if valid:
            L = min(valid)
        else:
            if not down(D):
                resets.append(D)
            L = D
    return req, resets


def _check_api(gen: int, pat, inst, state, stats: Stats | None):
    case = {"mode": "api", "gen": gen, "pattern": pat, "inst": inst, "state": state}

    def bad(key, what):
        raise Violation(f"C08:{key}", what, case)

    pre = [{}, {}, {}] if pat.get("reinit") else [{}]   # handshake (+ first heartbeat and second handshake when re-initialising)
    beh = {"version_req": pre + [({"skip": True} if d is None else {"delay": d}) for d in pat["delays"]]}
    rig = ApiRig(inst, state, beh)
    try:
        r = rig.run_init()
        if r != ("ok", True):
            bad("init", f"init failed: {r!r}")
        if pat.get("reinit"):
            rig.loop.advance(7.0)
            o = rig.loop.call(rig.at.shutdown())
            if o[0] != "ok":
                bad("shutdown", f"shutdown(): {o!r}")
            rig.loop.advance(13.0)
            r = rig.run_init()
            if r != ("ok", True):
                bad("reinit", f"init() after shutdown failed: {r!r}")
        t0 = rig.loop.time()
        c = rig.console
        n_ver0 = len([1 for q in c.requests if q[2] == "version_req"]) - 1
        t_end = t0 + pat["n"] * 300.0 + 700.0
        slow = pat.get("outage_kind") == "slow-eof"
        if slow:
            outages = [(t0 + k * 300.0 - 0.0625, t0 + k * 300.0 + 0.0625) for k in pat.get("outages", ())]
        else:
            outages = [(t0 + k * 300.0 - 1.5, t0 + k * 300.0 + 0.5) for k in pat.get("outages", ())]
        model = timeline(t0, 300.0, 330.0, pat["delays"], [t0 + u for u in pat["unsolicited"]], t_end, outages)
        if model is None:
            if stats is not None:
                stats.classes["tie-discarded"] += 1
            return
        exp_req, exp_resets = model
        for u in pat["unsolicited"]:
            rig.loop.call_at(t0 + u, lambda: rig.net.current and c.feed(rig.net.current, c.w.version(), label="unsolicited:version"))
        ac0 = inst["acs"][0]["number"]

        def decoy(which):
            tr = rig.net.current
            if tr is None:
                return
            if which == 0:
                c.feed(tr, c.w.error_info(ac0, None), label="decoy:error_info")
            elif which == 1:
                c.feed(tr, c.w.ac_status(list(c.state["acs"].values())), label="decoy:ac_status")
            else:
                c.feed(tr, c.w.unknown(1), label="decoy:unknown-ext")
        for t, which in pat.get("decoys", ()):
            rig.loop.call_at(t0 + t, decoy, which)

        def outage():
            tr = rig.net.current
            if tr is not None:
                if slow:
                    rig.net.close_latency = 0.125
                    tr.peer_eof()
                else:
                    rig.net.script.append(("refuse", 0.0))
                    tr.peer_reset()

        def outage_over():
            rig.net.close_latency = 0.0
        for s_, e_ in outages:
            rig.loop.call_at(s_, outage)
            if slow:
                rig.loop.call_at(e_, outage_over)
        rig.loop.advance(t_end - t0)
        got_req = [t for (t, _cid, kind, _p, _f) in c.requests if kind == "version_req"][n_ver0:]
        got_resets = [e[0] for e in rig.net.log if e[1] == "closed" and e[3] == "client" and e[0] >= t0
                      and not (slow and any(s_ <= e[0] <= e_ for s_, e_ in outages))]   # the client's own close after a peer EOF
        _judge(bad, exp_req, exp_resets, got_req, got_resets, rig.net, t_end)
        if rig.loop.unhandled or harness.unhandled_task_errors():
            bad("unhandled", f"unhandled exception: {(rig.loop.unhandled or harness.unhandled_task_errors())[0]}")
        # after every reset: refresh requests on the new connection
        for t in exp_resets:
            kinds = [k for (tt, _cid, k, _p, _f) in c.requests if tt == t]
            if "ac_status_req" not in kinds or "zone_status_req" not in kinds:
                bad("no-refresh", f"after the reset at t={t} the refresh requests were not sent (saw {kinds})")
        _record(stats, case, pat, exp_resets, f"api{gen}")
    finally:
        rig.dispose()


def _judge(bad, exp_req, exp_resets, got_req, got_resets, net, t_end):
    if got_resets != exp_resets:
        missing = [t for t in exp_resets if t not in got_resets]
        extra = [t for t in got_resets if t not in exp_resets]
        if missing:
            bad("missed-timeout", f"no version response arrived for the whole timeout before t={missing[0]} yet the "
                                  f"connection was not reset (resets observed at {got_resets}, expected {exp_resets})")
        bad("spurious-reset", f"connection reset at t={extra[0]} although a response had arrived within the timeout "
                              f"(resets observed at {got_resets}, expected {exp_resets})")
    if got_req != exp_req:
        missing = [t for t in exp_req if t not in got_req]
        extra = [t for t in got_req if t not in exp_req]
        bad("heartbeat-cadence", f"heartbeat requests at {got_req[:8]}..., expected {exp_req[:8]}... "
                                 f"(missing {missing[:3]}, extra {extra[:3]})")
    for t in exp_resets:
        opens = [e for e in net.log if e[1] == "open" and e[0] == t]
        if not opens:
            bad("no-reconnect", f"connection closed at t={t} but not re-established in that instant")
    if net.max_open > 1:
        bad("two-connections", "two connections open at once")


def _record(stats, case, pat, exp_resets, tag):
    if stats is None:
        return
    ds = pat["delays"][: pat["n"] + 1]
    run = best = 0
    for d in ds:
        run = run + 1 if (d is not None and 0 < d < 30) else 0
        best = max(best, run)
    nt = bool(exp_resets) or any(d is None or d >= 30 for d in ds) or best >= 4
    classes = [tag, f"shape:{pat['shape']}", "resets:%d" % min(len(exp_resets), 3)]
    if pat.get("outages") and tag.startswith("api"):
        classes.append("outage-at-heartbeat")
        if pat.get("outage_kind") == "slow-eof":
            classes.append("heartbeat-inside-closing-window")
    if pat.get("decoys") and tag.startswith("api"):
        classes.append("decoys")
    if pat.get("reinit") and tag.startswith("api"):
        classes.append("after-reinit")
    if ds and ds[0] is None:
        classes.append("silent-from-first")
    if len(exp_resets) >= 2:
        classes.append("silence-after-reset")
    stats.case([tag, pat], nt, classes=classes,
               sample={"mode": tag, "n": pat["n"], "delays": ds, "unsolicited": pat["unsolicited"], "expected_resets": exp_resets})


def _check_bare(gen: int, pat, interval: float, timeout: float, stats: Stats | None):
    case = {"mode": "bare", "gen": gen, "pattern": pat, "interval": interval, "timeout": timeout}

    def bad(key, what):
        raise Violation(f"C08:{key}", what, case)

    rig = SockRig(gen)
    try:
        rig.open()
        msg = sockops.build(gen, "version_req", [])
        ver_sep = "|" if gen == 4 else ","

        def is_version(m):
            sub = getattr(m, "sub_message", None)
            return type(sub).__name__ == "ConsoleVersionMessage"

        mgr = hbmod.HeartbeatManager(rig.loop, rig.sock, hbmod.HeartbeatConfig(message=msg, response_match=is_version,
                                                                               interval=interval, timeout=timeout))
        # scripted peer: answers the k-th version request after delays[k]
        seen = []
        buf = {}
        answer = refproto.frame(gen, 0xB0, 0x90, 1, 0x1F, refcodec.write_version(False, ["1.0"], ver_sep))

        def on_data(tr, data):
            b = buf.setdefault(tr.cid, bytearray())
            b += data
            pr = refproto.parse_stream(gen, bytes(b))
            for fr in pr.frames:
                if refcodec.read_client_frame(gen, fr.mtype, fr.data)[0] == "version_req":
                    k = len(seen)
                    seen.append(rig.loop.time())
                    d = pat["delays"][k] if k < len(pat["delays"]) else 0.0
                    if d is not None:
                        rig.loop.call_later(d * scale, lambda tr=tr: tr.alive and tr.feed(answer))
            del b[:pr.consumed]
        scale = interval / 300.0
        rig.net.on_data = on_data
        r = rig.loop.call(mgr.start())
        if r[0] != "ok":
            bad("start", f"start(): {r!r}")
        t0 = rig.loop.time()
        delays = [None if d is None else d * scale for d in pat["delays"]]
        t_end = t0 + pat["n"] * interval + 700.0 * scale
        uns = [t0 + u * scale for u in pat["unsolicited"]]
        model = timeline(t0, interval, timeout, delays, uns, t_end)
        if model is None:
            if stats is not None:
                stats.classes["tie-discarded"] += 1
            return
        exp_req, exp_resets = model
        for u in uns:
            rig.loop.call_at(u, lambda: rig.net.current and rig.net.current.feed(answer))
        rig.loop.advance(t_end - t0)
        got_resets = [e[0] for e in rig.net.log if e[1] == "closed" and e[3] == "client"]
        _judge(bad, exp_req, exp_resets, seen, got_resets, rig.net, t_end)
        r = rig.loop.call(mgr.stop())
        if r[0] != "ok":
            bad("stop", f"stop(): {r!r}")
        n_before = len(seen)
        rig.loop.advance(3 * interval)
        if len(seen) != n_before:
            bad("heartbeat-after-stop", "heartbeat requests continue after stop()")
        _record(stats, case, pat, exp_resets, f"bare{gen}")
    finally:
        rig.dispose()


# (interval, timeout) pairs; interval / 300 is a power of two so that every scaled delay stays a dyadic rational
# (exact float arithmetic: a response and a deadline coincide exactly or not at all)
CONFIGS = [(300.0, 330.0), (150.0, 165.0), (75.0, 82.5), (37.5, 41.25), (600.0, 660.0), (75.0, 112.5), (150.0, 300.125), (37.5, 38.0)]


def _no_livelock(stats, case, fn, *a):
    """A heartbeat loop that never sleeps keeps the event loop busy for ever inside one instant: requests without
    end instead of one per interval."""
    from pav.vloop import Livelock
    try:
        return fn(*a)
    except Livelock as exc:
        if stats is not None:
            stats.fatal = True
        raise Violation("C08:livelock", f"the client never becomes idle (requests / resets without pause): {exc}", case)


def check_api(gen: int, pat, inst, state, stats: Stats | None):
    return _no_livelock(stats, {"mode": "api", "gen": gen, "pattern": pat, "inst": inst, "state": state},
                        _check_api, gen, pat, inst, state, stats)


def check_bare(gen: int, pat, interval: float, timeout: float, stats: Stats | None):
    return _no_livelock(stats, {"mode": "bare", "gen": gen, "pattern": pat, "interval": interval, "timeout": timeout},
                        _check_bare, gen, pat, interval, timeout, stats)


def shards(tier: str):
    n, reps = (100, 4) if tier == "quick" else (1000, 8)
    out = []
    for g in (4, 5):
        for k in range(reps):
            out.append({"mode": "api", "gen": g, "n": n, "k": k})
            out.append({"mode": "bare", "gen": g, "n": n, "k": k})
    return out


def floors(tier: str):
    return {"silent-from-first": 10, "silence-after-reset": 20, "resets:0": 40, "resets:1": 10, "outage-at-heartbeat": 50, "decoys": 50, "after-reinit": 30,
            "heartbeat-inside-closing-window": 15}


def run_shard(spec, seed: int, tier: str):
    stats = Stats(ID)
    gen = spec["gen"]
    if spec["mode"] == "api":
        @st.composite
        def strat(draw):
            inst = draw(con.installation(gen, max_acs=2))
            return draw(_pattern()), inst, draw(con.full_state(inst))
        drive(stats, lambda s: given_test(strat(), lambda c: stats.guard(check_api, gen, c[0], c[1], c[2], stats), s, spec["n"]), seed)
    else:
        strat = st.tuples(_pattern(), st.sampled_from(CONFIGS))
        drive(stats, lambda s: given_test(strat, lambda c: stats.guard(check_bare, gen, c[0], c[1][0], c[1][1], stats), s, spec["n"]), seed)
    return stats.result()


def replay(case):
    try:
        if case["mode"] == "api":
            check_api(case["gen"], case["pattern"], case["inst"], case["state"], None)
        else:
            check_bare(case["gen"], case["pattern"], case["interval"], case["timeout"], None)
    except Violation as v:
        return v.as_dict()
    return None
