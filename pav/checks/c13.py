"""C13 - reception is independent of TCP segmentation.

Streams of 1..6 console->client frames of all kinds (pav.gens, encoded by the
real send path), both generations.  Segmentations: every single cut; every pair
of cuts for streams <= 40 bytes (quick) / every set of <= 3 cuts for streams
<= 64 bytes (thorough); generated k <= 20 cuts; all single bytes; one segment.
Between segments: nothing, 1 or 3 loop turns, settle(), or a clock advance.

Oracle (metamorphic + direct): the list of (header, message) delivered equals the
list delivered for the unsegmented stream and equals the generated messages,
once each, in order; the connection is never reset.
"""

from __future__ import annotations

import itertools

from hypothesis import strategies as st

from pav import gens, refproto, ser, sockops
import pyairtouch.comms.socket as sockmod
from pav.harness import Stats, Violation, drive, given_test
from pav.rig import SockRig, console_frames

ID = "C13"
LEVEL = "exploration"
RULE = ("generated frame streams x enumerated/generated cut sets x generated inter-segment scheduling; non-trivial: at "
        "least one cut falls strictly inside a frame; distinct by (stream bytes, cut set, scheduling)"
        " Also: bursts of 9..40 frames, stalls of 31 s / 301 s inside a frame, a connection lost inside a frame followed by a re-sent stream, two sockets fed in alternation.")
ASSUMPTIONS = ["frames are produced by the library's own encoder (its round trip is the subject of C03)",
               "one socket is reused for all segmentations of one stream (a long-lived connection)"]

GAPS = ["none", "turn1", "turn3", "settle", "advance", "advance31", "advance301", "send"]


def _turns(loop, n):
    for _ in range(n):
        loop.call_soon(loop.stop)
        loop.run_forever()


class StreamRig:
    def __init__(self, gen: int, msgs, case_base):
        self.gen = gen
        self.msgs = msgs
        self.frames = console_frames(gen, msgs)
        self.stream = b"".join(self.frames)
        self.bounds = set(itertools.accumulate(len(f) for f in self.frames))
        self.rig = SockRig(gen)
        self.rig.open()
        self.tr = self.rig.net.conns[0]
        self.case_base = case_base
        self.n_feeds = 0
        self.n_conns = 1
        # reference delivery: unsegmented
        self.base = self.feed([], "none", check=False)
        exp = [(f.to, f.frm, f.pid, f.mtype, len(f.data)) for f in refproto.parse_all(gen, self.stream)]
        got = [h for h, _ in self.base]
        if got != exp or [m for _, m in self.base] != list(msgs):
            raise Violation("C13:unsegmented", f"unsegmented stream delivered {len(self.base)} messages {got}, "
                                               f"expected {len(msgs)}: {exp}", dict(case_base, cuts=[], gap="none"))

    def feed(self, cuts, gap, check=True):
        rig, loop = self.rig, self.rig.loop
        n0 = len(rig.received)
        pos = 0
        for c in list(cuts) + [len(self.stream)]:
            if c <= pos:
                continue
            self.tr.feed(self.stream[pos:c])
            pos = c
            if gap == "turn1":
                _turns(loop, 1)
            elif gap == "turn3":
                _turns(loop, 3)
            elif gap == "settle":
                loop.settle()
            elif gap == "advance":
                loop.advance(0.25)
            elif gap == "advance31":
                loop.advance(31.0)       # a stall of half a minute inside a frame
            elif gap == "advance301":
                loop.advance(301.0)      # ... of five minutes (longer than every interval the client knows)
            elif gap == "send":
                # the connection is full duplex: the client transmits a request of its own while a frame is half received
                # (nothing of the transmit path may disturb the frame being assembled)
                loop.settle()
                r = rig.send(sockops.build(self.gen, "ac_req", []), sockmod.RETRY_IDEMPOTENT)
                if r[0] != "ok":
                    raise Violation("C13:send-failed", f"send between two segments: {r!r}", dict(self.case_base, cuts=list(cuts), gap=gap))
                loop.settle()
                self.sends_between = getattr(self, "sends_between", 0) + 1
        loop.settle()
        self.n_feeds += 1
        out = [((h.to_address, h.from_address, h.packet_id, h.message_id, h.message_length), m)
               for _, h, m in rig.received[n0:]]
        del rig.received[: ]
        if check:
            case = dict(self.case_base, cuts=list(cuts), gap=gap)
            if len(rig.net.conns) != self.n_conns or not self.tr.alive or not rig.sock.is_connected:
                raise Violation("C13:reset", f"segmentation cuts={list(cuts)} gap={gap} reset the connection", case)
            if out != self.base:
                raise Violation("C13:differs", f"segmentation cuts={list(cuts)} gap={gap}: delivered {len(out)} messages "
                                               f"{[h for h, _ in out]} != unsegmented delivery {[h for h, _ in self.base]}", case)
        return out

    def die_and_resend(self, k: int):
        """The most drastic segment boundary: the connection is lost after the first k bytes; the console sends the
        stream again, whole, on the connection the client opens next.  Nothing of the torn frame may leak into it."""
        rig, loop = self.rig, self.rig.loop
        case = dict(self.case_base, cuts=[k], gap="connection-lost-then-resent")
        self.tr.feed(self.stream[:k])
        loop.settle()
        self.tr.peer_eof()
        loop.settle()
        for _ in range(80):
            cur = rig.net.current
            if rig.sock.is_connected and cur is not None and cur is not self.tr and cur.alive:
                break
            loop.advance(0.125)
        cur = rig.net.current
        if cur is None or cur is self.tr or not rig.sock.is_connected:
            raise Violation("C13:no-reconnect", f"connection lost after {k} bytes: no new connection within 10 s", case)
        self.tr = cur
        self.n_conns = len(rig.net.conns)
        del rig.received[:]
        try:
            self.feed([], "none")
        except Violation as v:
            v.case = case
            v.what = f"after a connection that was lost {k} bytes into the stream: " + v.what
            raise

    def nontrivial(self, cuts) -> bool:
        return any(c not in self.bounds for c in cuts)

    def dispose(self):
        self.rig.dispose()


def run_stream(gen, msgs, extra_cutsets, gaps_cycle, tier, stats: Stats | None, burst: bool = False):
    case_base = {"gen": gen, "msgs": [ser.to_json(m) for m in msgs]}
    sr = StreamRig(gen, msgs, case_base)
    try:
        n = len(sr.stream)
        gi = itertools.cycle(gaps_cycle)
        count = nt = 0

        def go(cuts, gap=None):
            nonlocal count, nt
            sr.feed(cuts, gap or next(gi))
            count += 1
            if sr.nontrivial(cuts):
                nt += 1

        go(list(range(1, n)), "none")          # all single bytes
        go(list(range(1, n)), "turn1")
        if burst:
            # many frames at once: the whole stream in one segment, one frame per segment and groups of frames per
            # segment under every kind of gap (nothing in between ... a clock advance), plus a sample of single cuts
            bs = sorted(sr.bounds)[:-1]
            for g in GAPS:
                go([], g)
                go(bs, g)
                for k in (2, 3, 5, 9):
                    go(bs[k - 1::k], g)
            for c in range(1, n, max(1, n // 60)):
                go([c])
            classes = ["burst-of-frames"]
        else:
            for c in range(1, n):                   # every single cut
                go([c])
            classes = ["single-cuts"]
            # a long stall inside a frame: after the header, inside the payload, before / inside the check bytes
            hl_ = refproto.header_len(gen)
            starts_ = [0] + sorted(sr.bounds)[:-1]
            for st0 in starts_[:3]:
                for c in (st0 + hl_, st0 + hl_ + 1, min(n - 1, st0 + hl_ + 3)):
                    if 0 < c < n:
                        go([c], "advance31")
                        go([c], "advance301")
            go([n - 2], "advance31")
            go([n - 1], "advance301")
            classes.append("long-stall-mid-frame")
            # a request of the client's own goes out while a frame is half received: after the header, inside the payload,
            # between and before the check bytes of the first frames
            for st0 in starts_[:3]:
                for c in (st0 + hl_, st0 + hl_ + 1, min(n - 1, st0 + hl_ + 3)):
                    if 0 < c < n:
                        go([c], "send")
            go([n - 2], "send")
            go([n - 1], "send")
            classes.append("send-between-segments")
        pair_limit, triple_limit = (40, 0) if tier == "quick" else (64, 64)
        if n <= pair_limit:
            for cs in itertools.combinations(range(1, n), 2):
                go(cs)
            classes.append("exhaustive-2cuts")
        if n <= triple_limit:
            for cs in itertools.combinations(range(1, n), 3):
                go(cs, "none")
            classes.append("exhaustive-3cuts")
        for cs in extra_cutsets:
            go(sorted({1 + c % (n - 1) for c in cs}) if n > 1 else [])
        # connection lost inside a frame (after its header / inside its payload / inside its check bytes), stream re-sent
        hl = refproto.header_len(gen)
        starts = [0] + sorted(sr.bounds)[:-1]
        ks = {starts[-1] + hl, starts[-1] + hl + 1, n - 1, n - 2, starts[0] + hl}
        for cs in extra_cutsets[:2]:
            ks |= {1 + c % (n - 1) for c in list(cs)[:2]} if n > 1 else set()
        for k in sorted(k for k in ks if 0 < k < n):
            sr.die_and_resend(k)
            count += 1
            nt += 1 if k not in sr.bounds else 0
            classes.append("connection-lost-mid-stream") if "connection-lost-mid-stream" not in classes else None
        if stats is not None:
            stats.evaluations += count
            stats.nt_disjoint += nt
            stats.classes["segmentations"] += count
            stats.classes["nontrivial"] += nt
            for c in classes:
                stats.classes[c] += 1
            stats.classes[f"gen{gen}:frames{len(msgs)}"] += 1
            if len(stats.samples) < 4:
                stats.samples.append({"gen": gen, "stream": sr.stream.hex()[:200], "len": n, "frames": len(msgs),
                                      "segmentations": count, "example_cuts": list(extra_cutsets[0]) if extra_cutsets else []})
    finally:
        sr.dispose()


def run_twin_streams(gen, msgs_a, msgs_b, cutsets, stats: Stats | None):
    """Two sockets in one process receive their own streams, segment by segment in alternation: each delivers exactly
    its own messages (nothing of the receive path may be shared between sockets)."""
    case = {"gen": gen, "twin": [[ser.to_json(m) for m in msgs_a], [ser.to_json(m) for m in msgs_b]], "cutsets": cutsets}
    rigs = [StreamRig(gen, msgs_a, {"gen": gen, "msgs": case["twin"][0]}), StreamRig(gen, msgs_b, {"gen": gen, "msgs": case["twin"][1]})]
    try:
        for cs in cutsets:
            segs = []
            for sr in rigs:
                n = len(sr.stream)
                cuts = sorted({1 + c % (n - 1) for c in cs}) if n > 1 else []
                segs.append([sr.stream[a:b] for a, b in zip([0] + cuts, cuts + [n])])
                del sr.rig.received[:]
            for k in range(max(len(x) for x in segs)):
                for sr, sg in zip(rigs, segs):
                    if k < len(sg):
                        sr.tr.feed(sg[k])
                        _turns(sr.rig.loop, 1 + k % 3)
            for i, sr in enumerate(rigs):
                sr.rig.loop.settle()
                out = [((h.to_address, h.from_address, h.packet_id, h.message_id, h.message_length), m) for _, h, m in sr.rig.received]
                if len(sr.rig.net.conns) != 1 or not sr.tr.alive:
                    raise Violation("C13:reset", f"two sockets fed in alternation (cuts {list(cs)[:6]}): socket {i} reset its connection", case)
                if out != sr.base:
                    raise Violation("C13:differs", f"two sockets fed in alternation (cuts {list(cs)[:6]}): socket {i} delivered {len(out)} "
                                                   f"messages, its unsegmented stream delivers {len(sr.base)}", case)
        if stats is not None:
            stats.evaluations += len(cutsets)
            stats.nt_disjoint += len(cutsets)
            stats.classes["twin-sockets"] += len(cutsets)
    finally:
        for sr in rigs:
            sr.dispose()


def _strategy(gen: int, small: bool, burst: bool = False):
    kinds = None
    if small or burst:
        kinds = ["group_status", "ac_status", "ext_err_msg", "ext_version_msg", "ext_names_msg"] if gen == 4 else \
            ["ext_err_msg", "ext_version_msg", "ext_names_msg", "timer_status", "zone_status"]
    msgs = st.lists(gens.message(gen, kinds=kinds, direction="s2c").map(lambda km: km[1]),
                    min_size=9 if burst else 1, max_size=40 if burst else (2 if small else 6))
    cutsets = st.lists(st.lists(st.integers(0, 10000), min_size=1, max_size=20), min_size=4, max_size=30)
    gaps = st.lists(st.sampled_from(GAPS), min_size=1, max_size=5)
    return st.tuples(msgs, cutsets, gaps)


def shards(tier: str):
    out = []
    reps, n = (4, 40) if tier == "quick" else (16, 120)
    for gen in (4, 5):
        for k in range(reps):
            out.append({"gen": gen, "small": False, "n": n, "k": k})
            out.append({"gen": gen, "small": True, "n": n, "k": k})
        for k in range(2):
            out.append({"gen": gen, "small": False, "burst": True, "n": n // 2, "k": k})
        out.append({"gen": gen, "small": False, "twin": True, "n": n // 2})
    return out


def floors(tier: str):
    f = {"single-cuts": 100, "segmentations": 10000, "connection-lost-mid-stream": 100, "burst-of-frames": 30, "long-stall-mid-frame": 100, "twin-sockets": 100, "send-between-segments": 100}
    f["exhaustive-2cuts" if tier == "quick" else "exhaustive-3cuts"] = 3
    return f


def run_shard(spec, seed: int, tier: str):
    stats = Stats(ID)
    gen = spec["gen"]

    if spec.get("twin"):
        one = st.lists(gens.message(gen, direction="s2c").map(lambda km: km[1]), min_size=2, max_size=5)
        strat = st.tuples(one, one, st.lists(st.lists(st.integers(0, 10000), min_size=2, max_size=12), min_size=3, max_size=8))
        drive(stats, lambda s: given_test(strat, lambda c: stats.guard(run_twin_streams, gen, c[0], c[1], c[2], stats), s, spec["n"]), seed)
        return stats.result()

    def body(case):
        msgs, cutsets, gaps = case
        run_stream(gen, msgs, cutsets, gaps, tier, stats, burst=bool(spec.get("burst")))

    drive(stats, lambda s: given_test(_strategy(gen, spec["small"], bool(spec.get("burst"))), lambda c: stats.guard(body, c), s, spec["n"]), seed)
    return stats.result()


def replay(case):
    if "twin" in case:
        try:
            run_twin_streams(case["gen"], [ser.from_json(m) for m in case["twin"][0]], [ser.from_json(m) for m in case["twin"][1]],
                             case["cutsets"], None)
        except Violation as v:
            return v.as_dict()
        return None
    msgs = [ser.from_json(m) for m in case["msgs"]]
    try:
        sr = StreamRig(case["gen"], msgs, {"gen": case["gen"], "msgs": case["msgs"]})
        try:
            if case["gap"] == "connection-lost-then-resent":
                sr.die_and_resend(case["cuts"][0])
            else:
                sr.feed(case["cuts"], case["gap"])
        finally:
            sr.dispose()
    except Violation as v:
        return v.as_dict()
    return None
