"""C05 - status frames are interpreted as the vendor protocol defines.

For each status / ability / name / version / error decoder reachable through
`registry.get_decoder(type).decode(payload, header)` (7 per generation):
Hypothesis draws base records (written by the independent console writer,
pav.refcodec); on top of a base (i) every byte position of a record takes all 256
values, (ii) adjacent byte pairs take all 65 536 values (thorough: every pair;
quick: the pairs that straddle a multi-byte field plus generated pairs),
(iii) record counts 1..16, (iv) AT5 0xC0 strides = known size + {0, 1, 2, 5} with
junk in the tail and both 8- and 10-byte AC records, (v) AT4 ability records
with following length 22 and 24 mixed in one message, (vi) strings of all
lengths incl. multi-byte UTF-8 and embedded NUL.

Oracle: field-by-field comparison with the independent reader (pav.refcodec).
Reference reading per field in {value, ABSENT, UNDEFINED}: value => the decoded
field must be exactly that; ABSENT => None; a record with an UNDEFINED code =>
the decoder must reject (any exception) - decoding it to a defined enum member
is a violation; a payload whose every field is defined must decode.  Payloads
the documents give no reading for (lengths that do not add up, text that is not
UTF-8) carry no requirement.
"""

from __future__ import annotations

import struct

from hypothesis import strategies as st

from pav import libview, refcodec as rc
from pav.harness import Stats, Violation, drive, given_test
from pav.rig import make_header, registry

ID = "C05"
LEVEL = "exploration"
RULE = ("Hypothesis-generated base payloads (independent console writer) x exhaustive per-byte (256) and per adjacent "
        "byte-pair (65 536) enumeration over one record x generated record counts / strides / string shapes; each "
        "decode is compared field by field with the independent spec reader.  Non-trivial: the mutated payload differs "
        "from the base and the reference reading changed; distinct by (decoder, payload)")
ASSUMPTIONS = [
    "the AT4/AT5 ability 'following length' byte is kept at the documented values (22/24, 24); the anchored stride mechanism is the 0xC0 sub-header",
    "undocumented timer status messages (0x37, 0xC0/0x33) are read with the layout stated in the module docstrings (weaker oracle)",
    "has_sensor = 0 => temperature (and AT4 set-point) absent, as stated by the dataclass docstrings",
]

F9 = {
    "at4-ac-temp": "C05:F9:at4-ac-temperature-byte5-0xff",
    "at5-ac-temp": "C05:F9:at5-ac-temperature-raw-gt-2000",
    "at5-ac-sp": "C05:F9:at5-ac-setpoint-raw-gt-250",
}


def lib_decode(gen: int, mtype: int, payload: bytes):
    reg = registry(gen)
    hdr = make_header(gen, 0xB0, 0x90 if mtype == 0x1F else 0x80, 1, mtype, len(payload))
    try:
        res = reg.get_decoder(mtype).decode(payload, hdr)
        res.assert_complete()
    except Exception as exc:  # noqa: BLE001 - rejection by any exception
        return ("reject", exc)
    return ("ok", res.message)


# ---------------------------------------------------------------- expectations per kind


def _undefined(rec) -> bool:
    return any(v is rc.UNDEFINED for v in rec.values())


def exp_group4(r):
    return {"number": r["number"], "power": r["power"], "method": r["method"], "percent": r["percent"],
            "low_battery": r["low_battery"], "turbo_support": r["turbo_support"], "sensor": r["sensor"], "spill": r["spill"],
            "setpoint": r["setpoint_raw"] if r["sensor"] else None,
            "temperature": None if (not r["sensor"] or r["temperature"] is rc.ABSENT) else r["temperature"]}


def exp_ac4(r):
    return {"number": r["number"], "power": r["power"], "mode": r["mode"], "fan": r["fan"], "spill": r["spill"],
            "timer_set": r["timer_set"], "setpoint": r["setpoint"], "temperature": r["temperature"],
            "error_code": r["error_code"]}


def exp_zone5(r):
    return {"number": r["number"], "power": r["power"], "method": r["method"], "percent": r["percent"],
            "setpoint": None if r["setpoint"] is rc.ABSENT else r["setpoint"], "sensor": r["sensor"],
            "temperature": None if (not r["sensor"] or r["temperature"] is rc.ABSENT) else r["temperature"],
            "spill": r["spill"], "low_battery": r["low_battery"]}


def exp_ac5(r):
    return {k: r[k] for k in ("number", "power", "mode", "fan", "setpoint", "turbo", "bypass", "spill", "timer_set",
                              "temperature", "error_code")}


def exp_ability4(r):
    return {k: r[k] for k in ("number", "name", "start", "count", "modes", "fans", "min_sp", "max_sp", "groups")}


def exp_ability5(r):
    return {k: r[k] for k in ("number", "name", "start", "count", "modes", "fans", "min_cool", "max_cool", "min_heat", "max_heat")}


def _sub(msg):
    return msg.sub_message


KINDS = {
    # name: gen, mtype, prefix, reader(data after prefix), lib view (message -> list/dict), expectation per record
    "at4_group_status": dict(gen=4, mtype=0x2B, prefix=b"", read=rc.read4_group_status, view=libview.group_status4, exp=exp_group4,
                             req="GroupStatusRequest"),
    "at4_ac_status": dict(gen=4, mtype=0x2D, prefix=b"", read=rc.read4_ac_status, view=libview.ac_status4, exp=exp_ac4,
                          req="AcStatusRequest"),
    "at4_timer_status": dict(gen=4, mtype=0x37, prefix=b"", read=rc.read4_timer_status, view=libview.timers, exp=dict,
                             req="AcTimerStatusRequest"),
    "at4_ability": dict(gen=4, mtype=0x1F, prefix=b"\xff\x11", read=rc.read4_ability, view=lambda m: libview.ability4(_sub(m)),
                        exp=exp_ability4, req="AcAbilityRequest"),
    "at4_names": dict(gen=4, mtype=0x1F, prefix=b"\xff\x12", read=rc.read4_group_names,
                      view=lambda m: dict(_sub(m).group_names), exp=None, req="GroupNamesRequest"),
    "at4_err": dict(gen=4, mtype=0x1F, prefix=b"\xff\x10", read=rc.read_error_info,
                    view=lambda m: {"number": _sub(m).ac_number, "text": _sub(m).error_info}, exp=None,
                    req="AcErrorInformationRequest"),
    "at4_version": dict(gen=4, mtype=0x1F, prefix=b"\xff\x30", read=lambda d: rc.read_version(d, "|"),
                        view=lambda m: {"update": _sub(m).update_available, "versions": list(_sub(m).versions)}, exp=None,
                        req="ConsoleVersionRequest"),
    "at5_zone_status": dict(gen=5, mtype=0xC0, c0=0x21, read=rc.read5_zone_status, view=lambda m: libview.zone_status5(_sub(m)),
                            exp=exp_zone5, req="ZoneStatusRequest"),
    "at5_ac_status": dict(gen=5, mtype=0xC0, c0=0x23, read=rc.read5_ac_status, view=lambda m: libview.ac_status5(_sub(m)),
                          exp=exp_ac5, req="AcStatusRequest"),
    "at5_timer_status": dict(gen=5, mtype=0xC0, c0=0x33, read=rc.read5_timer_status, view=lambda m: libview.timers(_sub(m)),
                             exp=dict, req="AcTimerStatusRequest"),
    "at5_ability": dict(gen=5, mtype=0x1F, prefix=b"\xff\x11", read=rc.read5_ability, view=lambda m: libview.ability5(_sub(m)),
                        exp=exp_ability5, req="AcAbilityRequest"),
    "at5_names": dict(gen=5, mtype=0x1F, prefix=b"\xff\x13", read=rc.read5_zone_names,
                      view=lambda m: dict(_sub(m).zone_names), exp=None, req="ZoneNamesRequest"),
    "at5_err": dict(gen=5, mtype=0x1F, prefix=b"\xff\x10", read=rc.read_error_info,
                    view=lambda m: {"number": _sub(m).ac_number, "text": _sub(m).error_info}, exp=None,
                    req="AcErrorInformationRequest"),
    "at5_version": dict(gen=5, mtype=0x1F, prefix=b"\xff\x30", read=lambda d: rc.read_version(d, ","),
                        view=lambda m: {"update": _sub(m).update_available, "versions": list(_sub(m).versions)}, exp=None,
                        req="ConsoleVersionRequest"),
}


def reference(kind: str, payload: bytes):
    k = KINDS[kind]
    if "c0" in k:
        h = rc.read_c0_subheader(payload)
        if h is None or h["sub"] != k["c0"]:
            return (rc.MALFORMED, "sub header")
        return k["read"](h)
    if not payload.startswith(k["prefix"]):
        return (rc.MALFORMED, "prefix")
    return k["read"](payload[len(k["prefix"]):])


def judge(kind: str, payload: bytes):
    """Returns (verdict, problems); problems = [(key, what)]."""
    k = KINDS[kind]
    ref = reference(kind, payload)
    lib = lib_decode(k["gen"], k["mtype"], payload)
    probs = []

    def prob(key, what):
        probs.append((key if key.startswith("C05:") else f"C05:{key}:{kind}", what))

    if ref[0] is rc.MALFORMED:
        return ("unspecified", probs)
    if "c0" in k and lib[0] != "ok" and (rc.read_c0_subheader(payload) or {}).get("normal"):
        # a non-empty "normal data" section in front of the records: the generic 0xC0 layout gives it a reading (the
        # records follow it) but no documented status message has one - a decoder may refuse it; if it accepts the
        # payload, the records must be read from behind that section (judged below)
        return ("unspecified", probs)
    if ref[0] == "request":
        if lib[0] != "ok":
            prob("request-rejected", f"a request payload was rejected: {lib[1]!r}")
        else:
            m = lib[1]
            sub = getattr(m, "sub_message", m)
            if type(sub).__name__ != k["req"]:
                prob("request-misread", f"request payload decoded as {type(sub).__name__}")
        return ("request", probs)
    body = ref[1]
    recs = body if isinstance(body, list) else None
    if recs is not None and any(_undefined(r) for r in recs):
        if lib[0] == "ok":
            bad = next(r for r in recs if _undefined(r))
            prob("undefined-accepted", f"a record with a code the documents do not define was decoded: reference reading {bad}")
        return ("undefined", probs)
    if recs is not None and any(r.get("name") is rc.MALFORMED for r in recs):
        return ("unspecified", probs)
    if lib[0] != "ok":
        prob("defined-rejected", f"a payload whose every field is defined was rejected: {lib[1]!r}")
        return ("defined", probs)
    sub_ = getattr(lib[1], "sub_message", lib[1])
    if type(sub_).__name__ == k["req"]:
        prob("status-read-as-request", f"the payload is a status report ({len(recs) if recs is not None else 1} record(s)) but was decoded "
                                       f"as the request {type(sub_).__name__}: {payload.hex()[:80]}")
        return ("defined", probs)
    try:
        got = k["view"](lib[1])
    except Exception as exc:  # noqa: BLE001
        prob("view-failed", f"decoded object cannot be read: {exc!r}")
        return ("defined", probs)
    if recs is None:
        if got != body:
            prob("field-mismatch", f"decoded {got} != documented reading {body}")
        return ("defined", probs)
    if len(got) != len(recs):
        prob("record-count", f"decoded {len(got)} records, the payload holds {len(recs)}")
        return ("defined", probs)
    for i, (g, r) in enumerate(zip(got, recs)):
        e = k["exp"](r)
        for f, ev in e.items():
            gv = g.get(f)
            if ev is rc.ABSENT:
                # sentinel the public data model cannot express (float field): pin the misreading
                pinned = None
                if kind == "at4_ac_status" and f == "temperature":
                    key, pinned = F9["at4-ac-temp"], rc.temp_from_raw(r["temp_raw"])
                elif kind == "at5_ac_status" and f == "temperature":
                    key, pinned = F9["at5-ac-temp"], rc.temp_from_raw(r["temp_raw"])
                elif kind == "at5_ac_status" and f == "setpoint":
                    key, pinned = F9["at5-ac-sp"], rc.sp5_from_raw(r["setpoint_raw"])
                if gv is None:
                    continue
                if pinned is not None and gv == pinned:
                    prob(key, f"record {i}: documented not-available sentinel of {f} decoded to the number {gv}")
                else:
                    prob("sentinel-misread", f"record {i}: {f} is a documented not-available value but decoded to {gv!r}")
            elif gv != ev or type(gv) is not type(ev) and not (isinstance(gv, (int, float)) and isinstance(ev, (int, float))):
                prob(f"field-mismatch:{f}", f"record {i}: {f} decoded as {gv!r}, the documents read {ev!r} (record bytes in {payload.hex()[:120]})")
    return ("defined", probs)


def run_payload(kind: str, payload: bytes, stats: Stats, base: bytes | None = None):
    verdict, probs = judge(kind, payload)
    for key, what in probs:
        if key in stats.known:
            stats.known_hits[key] += 1
            continue
        if key in stats.ignore_keys:
            continue
        v = Violation(key, what, {"kind": kind, "payload": payload.hex()})
        stats.note_failure(v)
        raise v
    stats.evaluations += 1
    stats.classes[f"verdict:{verdict}"] += 1
    if base is not None and payload != base:
        stats.nt_disjoint += 1


# ---------------------------------------------------------------- base generators (independent writer)

_name16 = st.text(st.characters(min_codepoint=1, max_codepoint=0x2FFF, exclude_categories=("Cs",)), max_size=16).map(
    lambda s: s.encode("utf-8")[:16].decode("utf-8", "ignore"))
_name8 = st.text(st.characters(min_codepoint=1, max_codepoint=0x2FFF, exclude_categories=("Cs",)), max_size=8).map(
    lambda s: s.encode("utf-8")[:8].decode("utf-8", "ignore"))
_text = st.text(st.characters(min_codepoint=0, max_codepoint=0x2FFF, exclude_categories=("Cs",)), max_size=60).map(
    lambda s: s.encode("utf-8")[:200].decode("utf-8", "ignore"))
_temp_raw = st.one_of(st.integers(0, 2047), st.sampled_from([0, 499, 500, 501, 2000, 2001, 2039, 2040, 2047]))
_timer = st.fixed_dictionaries({"disabled": st.booleans(), "hour": st.integers(0, 31), "minute": st.integers(0, 63)})

g4_zone = st.fixed_dictionaries({
    "number": st.integers(0, 63), "power": st.sampled_from(["off", "on", "turbo"]), "method": st.sampled_from(["damper", "temperature"]),
    "percent": st.integers(0, 127), "low_battery": st.booleans(), "turbo_support": st.booleans(), "setpoint_raw": st.integers(0, 63),
    "sensor": st.booleans(), "temp_raw": st.one_of(st.none(), _temp_raw), "spill": st.booleans(),
    "b4_unused": st.integers(0, 127), "b6_unused": st.integers(0, 15)})
g4_ac = st.fixed_dictionaries({
    "number": st.integers(0, 63), "power": st.sampled_from(["off", "on"]), "mode": st.sampled_from(sorted(rc.INV(rc.AC_MODE_STATUS))),
    "fan": st.sampled_from(sorted(rc.INV(rc.FAN4_STATUS))), "spill": st.booleans(), "timer_set": st.booleans(),
    "setpoint_raw": st.integers(0, 63), "temp_raw": _temp_raw, "error_code": st.one_of(st.just(0), st.integers(0, 65535)),
    "b4_unused": st.integers(0, 255), "b6_unused": st.integers(0, 31)})
g4_ability = st.fixed_dictionaries({
    "number": st.integers(0, 255), "name": _name16, "start": st.integers(0, 255), "count": st.integers(0, 255),
    "modes": st.sets(st.sampled_from(rc.MODE_BITS)), "fans": st.sets(st.sampled_from(rc.FAN_BITS4)),
    "min_sp": st.integers(0, 255), "max_sp": st.integers(0, 255), "groups": st.one_of(st.none(), st.sets(st.integers(0, 15)))})
g5_zone = st.fixed_dictionaries({
    "number": st.integers(0, 63), "power": st.sampled_from(["off", "on", "turbo"]), "method": st.sampled_from(["damper", "temperature"]),
    "percent": st.integers(0, 127), "setpoint_raw": st.one_of(st.none(), st.integers(0, 254)), "sensor": st.booleans(),
    "temp_raw": st.one_of(st.none(), _temp_raw), "spill": st.booleans(), "low_battery": st.booleans(),
    "b4_unused": st.integers(0, 127), "b5_unused": st.integers(0, 255), "b7_unused": st.integers(0, 255), "b8_unused": st.integers(0, 255)})
g5_ac = st.fixed_dictionaries({
    "number": st.integers(0, 15), "power": st.sampled_from(sorted(rc.INV(rc.AC_POWER5_STATUS))),
    "mode": st.sampled_from(sorted(rc.INV(rc.AC_MODE_STATUS))), "fan": st.sampled_from(sorted(rc.INV(rc.FAN5_STATUS))),
    "setpoint_raw": st.one_of(st.integers(0, 250), st.integers(0, 255)), "turbo": st.booleans(), "bypass": st.booleans(),
    "spill": st.booleans(), "timer_set": st.booleans(), "temp_raw": _temp_raw,
    "error_code": st.one_of(st.just(0), st.integers(0, 65535)), "b4_unused": st.integers(0, 255), "b5_unused": st.integers(0, 255)})
g5_ability = st.fixed_dictionaries({
    "number": st.integers(0, 255), "name": _name16, "start": st.integers(0, 255), "count": st.integers(0, 255),
    "modes": st.sets(st.sampled_from(rc.MODE_BITS)), "fans": st.sets(st.sampled_from(rc.FAN_BITS5)),
    "min_cool": st.integers(0, 255), "max_cool": st.integers(0, 255), "min_heat": st.integers(0, 255), "max_heat": st.integers(0, 255)})


def _recs(elem, lo=1, hi=16):
    return st.lists(elem, min_size=lo, max_size=hi)


def _c0_strided(sub, rec_fn, known):
    """records -> payload with stride = known + extra and junk in the tail."""
    def build(t):
        recs, extra, junk = t
        out = []
        for k, r in enumerate(recs):
            tail = bytes(junk[(k * 7 + j) % len(junk)] for j in range(extra)) if extra else b""
            out.append(rec_fn(r) + tail)
        return rc.c0(sub, b"", out, known + extra)
    return build


BASES = {
    "at4_group_status": _recs(g4_zone).map(rc.write4_group_status),
    "at4_ac_status": _recs(g4_ac).map(rc.write4_ac_status),
    "at4_timer_status": st.dictionaries(st.integers(0, 3), st.fixed_dictionaries({"on": _timer, "off": _timer}), min_size=1, max_size=4)
        .map(rc.write4_timer_status),
    "at4_ability": _recs(g4_ability, 1, 4).map(rc.write4_ability),
    "at4_names": st.dictionaries(st.integers(0, 255), _name8, min_size=1, max_size=16).map(rc.write4_group_names),
    "at4_err": st.tuples(st.integers(0, 255), st.one_of(st.none(), _text)).map(lambda t: rc.write_error_info(*t)),
    "at4_version": st.tuples(st.integers(0, 255), st.lists(_text.map(lambda s: s.replace("|", "")[:60]), min_size=1, max_size=2)).map(
        lambda t: b"\xff\x30" + bytes([t[0], len("|".join(t[1]).encode())]) + "|".join(t[1]).encode()),
    "at5_zone_status": st.tuples(_recs(g5_zone), st.sampled_from([0, 0, 1, 2, 5]), st.binary(min_size=1, max_size=8)).map(
        _c0_strided(0x21, rc.rec5_zone_status, 8)),
    "at5_ac_status": st.tuples(_recs(g5_ac), st.sampled_from([0, 2, 2, 1, 5, 7]), st.binary(min_size=1, max_size=8)).map(
        _c0_strided(0x23, lambda a: rc.rec5_ac_status(a, 8), 8)),
    "at5_timer_status": st.tuples(
        st.lists(st.tuples(st.integers(0, 255), _timer, _timer), min_size=1, max_size=16), st.sampled_from([0, 0, 1, 2, 5]),
        st.binary(min_size=1, max_size=8)).map(
        _c0_strided(0x33, lambda t: bytes([t[0]]) + rc._wtimer(t[1]) + rc._wtimer(t[2]) + bytes(4), 9)),
    "at5_ability": _recs(g5_ability, 1, 6).map(rc.write5_ability),
    "at5_names": st.dictionaries(st.integers(0, 255), _text.map(lambda s: s[:40]), min_size=1, max_size=16).map(rc.write5_zone_names),
    "at5_err": st.tuples(st.integers(0, 255), st.one_of(st.none(), _text)).map(lambda t: rc.write_error_info(*t)),
    "at5_version": st.tuples(st.integers(0, 255), st.lists(_text.map(lambda s: s.replace(",", "")[:60]), min_size=1, max_size=2)).map(
        lambda t: b"\xff\x30" + bytes([t[0], len(",".join(t[1]).encode())]) + ",".join(t[1]).encode()),
}

# enumeration window: (offset of first record, record size, excluded offsets inside the record, straddling pairs)
LAYOUT = {
    "at4_group_status": (0, 6, (), [(4, 5), (2, 3)]),
    "at4_ac_status": (0, 8, (), [(4, 5), (6, 7), (0, 1)]),
    "at4_timer_status": (0, 8, (), [(0, 1), (2, 3)]),
    "at4_ability": (2, 24, (1,), [(20, 21), (22, 23), (18, 19)]),   # byte 1 = following length (kept documented)
    "at4_names": (2, 9, (), [(0, 1)]),
    "at4_err": (2, 2, (1,), []),                                     # byte 1 = text length (no reading if inconsistent)
    "at4_version": (2, 2, (1,), []),
    "at5_zone_status": (8, 8, (), [(4, 5), (2, 3), (0, 1)]),
    "at5_ac_status": (8, 8, (), [(4, 5), (6, 7), (2, 3), (0, 1)]),
    "at5_timer_status": (8, 9, (), [(1, 2), (3, 4)]),
    "at5_ability": (2, 26, (1,), [(22, 23), (24, 25), (18, 19)]),
    "at5_names": (2, 2, (1,), []),
    "at5_err": (2, 2, (1,), []),
    "at5_version": (2, 2, (1,), []),
}


def enumerate_base(kind: str, base: bytes, tier: str, rnd: list, stats: Stats, all_pairs: bool):
    off, size, excl, straddle = LAYOUT[kind]
    run_payload(kind, base, stats)
    size = min(size, len(base) - off)
    buf = bytearray(base)
    n = 0
    for p in range(size):
        if p in excl:
            continue
        orig = buf[off + p]
        for v in range(256):
            buf[off + p] = v
            run_payload(kind, bytes(buf), stats, base)
            n += 1
        buf[off + p] = orig
    stats.classes[f"bytes:{kind}"] += n
    pairs = [(p, p + 1) for p in range(size - 1)] if all_pairs else list(straddle)
    pairs = [pq for pq in pairs if pq[0] not in excl and pq[1] not in excl and pq[1] < size]
    m = 0
    for p, q in pairs:
        o1, o2 = buf[off + p], buf[off + q]
        for v in range(65536):
            buf[off + p], buf[off + q] = v >> 8, v & 0xFF
            run_payload(kind, bytes(buf), stats, base)
            m += 1
        buf[off + p], buf[off + q] = o1, o2
    stats.classes[f"pairs:{kind}"] += m
    # generated pairs anywhere in the payload (outside excluded offsets of the first record)
    it = iter(rnd)
    for a, b, v in zip(it, it, it):
        i, j = a % len(base), b % len(base)
        if (i - off) in excl or (j - off) in excl or i < off or j < off:
            continue
        buf2 = bytearray(base)
        buf2[i], buf2[j] = v & 0xFF, (v >> 8) & 0xFF
        run_payload(kind, bytes(buf2), stats, base)
        stats.classes["random-pairs"] += 1


def shards(tier: str):
    out = []
    for kind in KINDS:
        if tier == "quick":
            out.append({"kind": kind, "n": 2, "all_pairs": False, "k": 0})
            out.append({"kind": kind, "n": 40, "all_pairs": False, "nopairs": True, "k": 1})
        else:
            for k in range(4):
                out.append({"kind": kind, "n": 2, "all_pairs": True, "k": k})
            out.append({"kind": kind, "n": 400, "all_pairs": False, "nopairs": True, "k": 9})
    return out


def floors(tier: str):
    f = {f"bytes:{k}": 256 for k in KINDS}
    f["verdict:undefined"] = 1000
    f["verdict:defined"] = 10000
    return f


def run_shard(spec, seed: int, tier: str):
    stats = Stats(ID)
    kind = spec["kind"]

    def body(case):
        base, rnd = case
        if stats.bail:
            return
        if spec.get("nopairs"):
            off, size, excl, straddle = LAYOUT[kind]
            run_payload(kind, base, stats)
            buf = bytearray(base)
            it = iter(rnd)
            for a, v in zip(it, it):
                i = a % len(base)
                if i < off or (i - off) in excl:
                    continue
                old = buf[i]
                buf[i] = v & 0xFF
                run_payload(kind, bytes(buf), stats, base)
                buf[i] = old
            stats.classes["bases"] += 1
            if len(stats.samples) < 3 and stats.evaluations % 5 == 1:
                stats.samples.append({"kind": kind, "payload": base.hex()[:160], "reading": repr(reference(kind, base))[:300]})
        else:
            enumerate_base(kind, base, tier, rnd, stats, spec["all_pairs"])
            stats.exhaustive = True

    strat = st.tuples(BASES[kind], st.lists(st.integers(0, 65535), min_size=30, max_size=300))
    drive(stats, lambda s: given_test(strat, body, s, spec["n"], shrink=False), seed + spec["k"])
    if spec.get("nopairs"):
        stats.exhaustive = False
    return stats.result()


def coverage_extra(tier: str):
    return {"exhaustive_note": "per-byte (all 256 values) and per-pair (all 65 536 values) slices over one record of each "
                               "generated base are enumerated completely; the bases themselves are sampled"}


def replay(case):
    verdict, probs = judge(case["kind"], bytes.fromhex(case["payload"]))
    if probs:
        key, what = probs[0]
        return {"key": key, "what": what, "case": case}
    return None
