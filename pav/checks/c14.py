"""C14 - state is refreshed after every reconnection and after AT4 group silence.

Hypothesis-generated histories on an initialised client with a stateful simulated
console: link loss (EOF / reset) at generated instants after initialisation;
outage = refuse x k (k in 0..20, retries 2 s apart) and/or connect latency;
console state changes while the link is down (any defined value) or none at all;
refresh answers immediate or delayed; AT4: gaps between group status frames from
{10, 299, 300 - 1/8, 300 + 1/8, 450, 1000} s, silence of up to 2000 s, group
frames carrying unchanged data; AT4 outages longer than 300 s (151..310 refused
attempts) followed by a reconnection whose group status answer is lost.

Oracle.  On every connection established after initialisation the console
receives, at the very instant of the open, an AC status request and a zone/group
status request (before anything else the client originates on that connection);
after the answers all getters == reference model of the console's current state;
subscribers fire only for entities whose exposed attributes differ from before
the outage (none if nothing changed).  AT4: with G = instant of the last group
status frame (or of initialisation, or of the last poll deadline), a group status
request is observed at G + 300 if connected, then every 300 s while the silence
lasts; any group status frame moves G; no other unsolicited group status request
is ever sent.  Histories in which a poll deadline coincides exactly with another
event are discarded (counted).
"""

from __future__ import annotations

import copy

from hypothesis import strategies as st

from pav import apiops
from pav import console as con
from pav import harness, refmodel
from pav.harness import Stats, Violation, drive, given_test

ID = "C14"
LEVEL = "fault_enumeration"
RULE = ("Hypothesis-generated histories (outages with refusals/latency, console state changes while down, group status "
        "frames at generated gaps, long silences) on an initialised client; non-trivial: an outage during which the console "
        "state changed, or an AT4 silence longer than 300 s; distinct by history"
        " Also: histories that start after shutdown() + init() on the same object, connections that die while the refresh is being written.")
ASSUMPTIONS = ["reconnection attempts are refused k times then accepted; answers to refresh requests are sent by the console "
               "with a generated delay", "exact coincidences of a poll deadline with another event are discarded"]

GAPS = [10.0, 299.0, 299.875, 300.125, 450.0, 1000.0]


@st.composite
def _history(draw, gen: int):
    inst = draw(con.installation(gen, max_acs=2))
    state = draw(con.full_state(inst))
    ac_ids = [a["number"] for a in inst["acs"]]
    zone_ids = sorted(con.zones_of(inst))
    ops = []
    n = draw(st.integers(2, 7))
    for _ in range(n):
        kind = draw(st.sampled_from(["outage", "outage", "gap", "gap", "push_zone", "silence"] + (["mute_outage"] if gen == 4 else [])))
        if kind == "mute_outage":
            # AT4: an outage longer than the 300 s group-silence allowance (so a poll deadline passes while the client is
            # not connected), after which the console's answer to the refresh request is lost: the silence continues on
            # the new connection and has to be noticed there
            ops.append(["mute_outage", draw(st.sampled_from(["eof", "reset"])), draw(st.sampled_from([151, 160, 200, 310])),
                        draw(st.sampled_from([0.0, 0.125, 1.0])), draw(st.sampled_from([350.0, 650.0, 1000.0]))])
            continue
        if kind == "outage":
            muts = []
            for a in ac_ids:
                if draw(st.booleans()):
                    muts.append(["ac", draw(con.ac_state_strategy(gen, a))])
            for z in zone_ids[:4]:
                if draw(st.integers(0, 2)) == 0:
                    muts.append(["zone", draw(con.zone_state_strategy(gen, z))])
            ops.append(["outage", draw(st.sampled_from(["eof", "reset"])), draw(st.sampled_from([0, 0, 1, 2, 5, 20])),
                        draw(st.sampled_from([0.0, 0.125, 1.0])), muts, draw(st.sampled_from([0.0, 0.0, 0.25, 1.5])),
                        draw(st.sampled_from([0, 0, 0, 1, 2, 3, 4, 5, 6]))])
        elif kind == "gap":
            ops.append(["advance", draw(st.sampled_from(GAPS))])
        elif kind == "push_zone" and zone_ids:
            recs = [draw(con.zone_state_strategy(gen, z)) for z in draw(st.lists(st.sampled_from(zone_ids), min_size=1, max_size=3))]
            ops.append(["push_zone", recs if draw(st.booleans()) else "same"])
        else:
            ops.append(["advance", draw(st.sampled_from([700.0, 1300.0, 2000.0]))])
    return {"inst": inst, "state": state, "ops": ops, "reinit": draw(st.integers(0, 3)) == 0}


class Interp(apiops.ApiInterp):
    def __init__(self, inst, state, reinit=False):
        super().__init__(ID, inst, state)
        if reinit:
            # the same object is shut down and initialised again before the history starts: everything (refresh after a
            # reconnection, the AT4 poll) must work as on a fresh object
            r = self.rig.loop.call(self.at.shutdown())
            if r[0] != "ok":
                self.bad("shutdown", f"shutdown(): {r!r}")
            self.rig.loop.advance(1.0)
            self.rig.console.step_count = {}
            r = self.rig.run_init()
            if r != ("ok", True):
                self.bad("reinit", f"init() after shutdown(): {r!r}")
            self.acs = {a.ac_id: a for a in self.at.air_conditioners}
            self.zones = {z.zone_id: z for a in self.at.air_conditioners for z in a.zones}
            self.nt.add("after-reinit")
            self.check_model("after re-init")
        self.t0 = self.rig.loop.time()
        # one subscriber per entity
        for n in self.acs:
            self.op_subscribe("ac", n, 0)
        for z in self.zones:
            self.op_subscribe("zone", z, 0)
        self.tie = False
        self.changed_outage = False

    def run(self, ops):
        for op in ops:
            self.ops.append(op)
            getattr(self, "x_" + op[0])(*op[1:])
            self.rig.loop.settle()
            if self.rig.net.max_open > 1:
                self.bad("two-connections", "two connections open at once")
        self.check_polls()

    def x_advance(self, dt):
        self.rig.loop.advance(dt)
        self.check_model(f"after advance {dt}")

    def x_push_zone(self, recs):
        if recs == "same":
            recs = [dict(self.state["zones"][str(z)]) for z in sorted(self.zones)][:3]
            if not recs:
                return
        if self.tr is None:
            return
        n0 = len(self.calls)
        exp_before = self.exposed()
        b = self.op_zone_status(recs)
        self.rig.loop.settle()
        self.check_model("after pushed zone status")
        self.check_calls(["zone_status"], n0, b, exp_before, dict(self.desc))

    def x_outage(self, how, k, lat, muts, answer_delay, arm=0):
        rig, net, c = self.rig, self.rig.net, self.rig.console
        tr = self.tr
        if tr is None:
            return
        exp_before = self.exposed()
        n_calls = len(self.calls)
        n_req = len(c.requests)
        for _ in range(k):
            net.script.append(("refuse", 0.0))
        net.script.append(("accept", lat))
        if arm:
            # the connection that is accepted fails on its arm-th write, i.e. while the client is still writing its
            # refresh requests from inside the 'connected' notification; the next attempt succeeds
            net.arm_bytes_on_accept.append(3 * arm)   # byte offset 3..18: inside the two refresh frames on either generation
            net.script.append(("accept", lat))     # the attempt that follows the failed connection takes as long again
            self.nt.add("refresh-write-fails")
        c.behaviour = {"ac_status_req": [{"delay": answer_delay}] * 50, "zone_status_req": [{"delay": answer_delay}] * 50}
        c.step_count = {}
        # the console's state moves without the client being told (the link is about to go / is down)
        for what, rec in muts:
            key = "acs" if what == "ac" else "zones"
            if str(rec["number"]) in self.state[key]:
                if self.state[key][str(rec["number"])] != rec:
                    self.changed_outage = True
                self.state[key][str(rec["number"])] = dict(rec)
                c.state[key][str(rec["number"])] = dict(rec)
        (tr.peer_eof if how == "eof" else tr.peer_reset)()
        rig.loop.settle()
        rig.loop.advance(2.0 * k + lat + (lat if arm else 0.0))
        net.script.clear()
        for tr_ in net.conns:
            tr_.fail_after = tr_.fail_at_byte = None      # a fault that did not fire while the refresh was written is disarmed (it would hit some
        net.arm_on_accept.clear(); net.arm_bytes_on_accept.clear()      # later, unrelated write and start another outage in the middle of the judging)
        if self.tr is None or not rig.sock.is_connected:
            self.bad("no-reconnect", f"link lost, {k} refusals then accept after {lat} s: client not connected at t={rig.loop.time()}")
        new = self.tr
        t_open = new.opened_at
        first = [(t, kind) for (t, cid, kind, _p, _f) in c.requests[n_req:] if cid == new.cid]
        kinds_at_open = [kd for t, kd in first if t == t_open]
        refresh = [kd for kd in kinds_at_open if kd in ("ac_status_req", "zone_status_req")]
        # (a refresh request that was left over from a connection attempt that failed a moment ago may precede them)
        if not ({"ac_status_req", "zone_status_req"} <= set(refresh)):
            self.bad("no-refresh", f"connection re-established at t={t_open}: requests seen in that instant {kinds_at_open}, "
                                   f"expected an AC status request and a zone/group status request")
        last_refresh = max(i for i, kd in enumerate(kinds_at_open) if kd in ("ac_status_req", "zone_status_req"))
        others_before = [kd for kd in kinds_at_open[:last_refresh] if kd not in ("ac_status_req", "zone_status_req")]
        if others_before:
            self.bad("refresh-not-first", f"{others_before} were sent on the new connection before the refresh requests")
        rig.loop.advance(answer_delay + 0.125)
        # error texts requested for ACs whose report changed with an error code
        for (_t, cid, kind, payload, _f) in c.requests[n_req:]:
            if kind == "error_req":
                self.desc[payload] = c.error_text.get(payload) if c.error_mode == "text" else None
        for n in self.acs:
            if self.state["acs"][str(n)]["error_code"] == 0:
                self.desc[n] = None
        self.check_model("after reconnection and refresh")
        exp_after = self.exposed()
        counts = {}
        for key, arg in self.calls[n_calls:]:
            counts[key] = counts.get(key, 0) + 1
        for n in self.acs:
            ch_own = exp_before["acs"][n] != exp_after["acs"][n]
            ch_zone = any(exp_before["zones"][z] != exp_after["zones"][z] for z in self.mapping[n] if z in exp_after["zones"])
            got = counts.get(("ac", n, 0), 0)
            raw_changed = True
            if not ch_own and not ch_zone and got and not self._raw_changed(n):
                self.bad("spurious-notification", f"refresh returned unchanged data for AC {n} but its subscriber was invoked {got} times")
            if (ch_own or ch_zone) and not got:
                self.bad("missed-notification", f"AC {n} (or one of its zones) changed during the outage but its subscriber was not invoked")
        for z in self.zones:
            ch = exp_before["zones"][z] != exp_after["zones"][z]
            got = counts.get(("zone", z, 0), 0)
            if ch and not got:
                self.bad("missed-notification", f"zone {z} changed during the outage but its subscriber was not invoked")
            if not ch and got and not self._raw_zone_changed(z):
                self.bad("spurious-notification", f"refresh returned unchanged data for zone {z} but its subscriber was invoked {got} times")
        self._before_raw = copy.deepcopy(self.state)
        self.nt.add("outage")

    def x_mute_outage(self, how, k, lat, after):
        rig, net, c = self.rig, self.rig.net, self.rig.console
        tr = self.tr
        if tr is None:
            return
        for _ in range(k):
            net.script.append(("refuse", 0.0))
        net.script.append(("accept", lat))
        # the console's state does not move; its answer to the first group status request (the refresh) is lost
        c.behaviour = {"zone_status_req": [{"skip": True}]}
        c.step_count = {}
        (tr.peer_eof if how == "eof" else tr.peer_reset)()
        rig.loop.settle()
        rig.loop.advance(2.0 * k + lat)
        net.script.clear()
        if self.tr is None or not rig.sock.is_connected:
            self.bad("no-reconnect", f"link lost, {k} refusals then accept after {lat} s: client not connected at t={rig.loop.time()}")
        rig.loop.advance(0.125)
        self.check_model("after a reconnection whose group status answer was lost (console state unchanged)")
        rig.loop.advance(after)
        self.check_model(f"{after} s after a reconnection whose group status answer was lost")
        self._before_raw = copy.deepcopy(self.state)
        self.nt.add("outage-over-a-poll-deadline+lost-answer")

    _before_raw = None

    def _raw_changed(self, n):
        # unexposed bits may differ (either behaviour accepted): be conservative
        return True if self._before_raw is None else (
            self._before_raw["acs"][str(n)] != self.state["acs"][str(n)] or
            any(self._before_raw["zones"].get(str(z)) != self.state["zones"].get(str(z)) for z in self.mapping[n]))

    def _raw_zone_changed(self, z):
        return True if self._before_raw is None else self._before_raw["zones"][str(z)] != self.state["zones"][str(z)]

    # ---- AT4 group status poll
    def check_polls(self):
        c, net = self.rig.console, self.rig.net
        t_end = self.rig.loop.time()
        opens = sorted(e[0] for e in net.log if e[1] == "open")
        zreq = [t for (t, _cid, kind, _p, _f) in c.requests if kind == "zone_status_req" and t > self.t0]
        unsolicited = [t for t in zreq if t not in opens]
        if self.gen != 4:
            if unsolicited:
                self.bad("unexpected-poll", f"zone status requests at {unsolicited[:4]} outside reconnection refresh")
            return
        # group status frames delivered to the client (only frames with records are recognisable)
        frames = sorted(t for (t, _cid, label, fr) in c.sent
                        if label.split(":")[-1] in ("zone_status_req", "zone_status") and t >= self.t0 and self._has_records(fr))
        pushes = {t for (t, _cid, label, fr) in c.sent if label == "push:zone_status"}
        downs = []   # (start, end) intervals during which the client is not connected
        # in log order (several connections may come and go within one instant): down from the close of the connection
        # in use until the next connection that lasts beyond its own instant (or to the end)
        evs = [(e[0], e[1]) for e in net.log if e[1] in ("open", "closed") and e[0] >= self.t0]
        cur = None
        for t, k in evs:
            if k == "closed":
                if cur is None:
                    cur = t
            elif k == "open" and cur is not None:
                downs.append((cur, t))
                cur = None
        downs = [(s_, e_) for s_, e_ in downs if e_ > s_] + ([(cur, float("inf"))] if cur is not None else [])
        merged = []
        for s_, e_ in sorted(downs):
            if merged and s_ <= merged[-1][1]:
                merged[-1] = (merged[-1][0], max(merged[-1][1], e_))
            else:
                merged.append((s_, e_))
        downs = merged

        def down(t):
            return any(s <= t < e for s, e in downs)
        expected = []
        G = self.t0
        fi = 0
        frames_after = [t for t in frames if t > self.t0]
        while True:
            D = G + 300.0
            if D > t_end:
                break
            nxt = [t for t in frames_after if G < t < D]
            # a frame arriving exactly at the deadline (other than the poll's own answer) is a tie
            if D in pushes or any(D == s or D == e for s, e in downs) or D in opens:
                self.tie = True
                return
            if nxt:
                G = nxt[0]
                continue
            if not down(D):
                expected.append(D)
            G = D
        if unsolicited != expected:
            missing = [t for t in expected if t not in unsolicited]
            extra = [t for t in unsolicited if t not in expected]
            if missing:
                self.bad("missed-poll", f"no group status had been received for 300 s at t={missing[0]} (connected) but no group status "
                                        f"request was sent (polls seen {unsolicited[:6]}, expected {expected[:6]})")
            self.bad("spurious-poll", f"group status request at t={extra[0]} although a group status had been received less than "
                                      f"300 s before (polls seen {unsolicited[:6]}, expected {expected[:6]})")
        if expected:
            self.nt.add("poll")

    def _has_records(self, frame: bytes) -> bool:
        from pav import refproto
        fr = refproto.parse_all(self.gen, frame)[0]
        return len(fr.data) > 0


def run_history(case, stats: Stats | None):
    x = Interp(case["inst"], case["state"], reinit=bool(case.get("reinit")))
    try:
        x.run(case["ops"])
        if stats is not None:
            if x.tie:
                stats.classes["tie-discarded"] += 1
                return
            nt = ("outage" in x.nt and x.changed_outage) or "poll" in x.nt
            classes = sorted(x.nt) + [f"gen{x.gen}"] + (["state-changed-while-down"] if x.changed_outage else [])
            stats.case(case, nt, classes=classes,
                       sample={"gen": x.gen, "ops": [[o[0]] + [a for a in o[1:] if not isinstance(a, (list, dict))] for o in case["ops"]],
                               "t_end": x.rig.loop.time(), "connections": len(x.rig.net.conns)})
    finally:
        x.dispose()


def shards(tier: str):
    n, reps = (150, 8) if tier == "quick" else (1000, 16)
    return [{"gen": g, "n": n, "k": k} for g in (4, 5) for k in range(reps)]


def floors(tier: str):
    return {"outage": 200, "poll": 50, "state-changed-while-down": 100, "after-reinit": 150, "refresh-write-fails": 100,
            "outage-over-a-poll-deadline+lost-answer": 100}


def run_shard(spec, seed: int, tier: str):
    stats = Stats(ID)
    drive(stats, lambda s: given_test(_history(spec["gen"]), lambda c: stats.guard(run_history, c, stats), s, spec["n"]), seed)
    return stats.result()


def replay(case):
    try:
        if "ops" in case and case["ops"] and case["ops"][0][0] == "init":
            run_history({"inst": case["ops"][0][1], "state": case["ops"][0][2], "ops": case["ops"][1:]}, None)
        else:
            run_history(case, None)
    except Violation as v:
        return v.as_dict()
    return None
