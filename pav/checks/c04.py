"""C04 - commands on the wire mean what the vendor protocol says.

Hypothesis @given + exhaustive sub-grids on initialised clients.  Installations
(pav.console): AC numbers 0..3 / 0..15, zone numbers 0..15, ability bitmaps and
limits, sensor / turbo flags.  Calls: every public control call with every enum
argument; temperatures on the 0.05 degC grid from min-3 to max+3 (exhaustive in
the `grid` shards, sampled elsewhere); damper 0..100 exhaustive; quick timers
with durations 0..24 h+ and times of day; check_for_updates.

Oracle: the single frame captured at the simulated console is read by the
independent command reader (pav.refcodec, vendor control tables) and compared
with an expectation written from the API docstrings (pav.cmdref): target id =
the entity called; the named attribute = requested value (temperature: any value
on the resolution grid within half a step of the request - both neighbours at
exact ties - then clamped for ACs); every other attribute reads keep (for zones
the control-type field may read keep or the type aligned with the request);
AT5 set-point control byte is 0x40 or 0x00 only; to-address 0x80 (0x90 for 0x1F),
from 0xB0, CRC by the independent framing; 0xC0 sub-header (0, 4, 1).
Timer / quick-timer frames are read with the docstring layout (weaker oracle).
"""

from __future__ import annotations

from hypothesis import strategies as st

from pav import cmdref, cmdrun
from pav import console as con
from pav.harness import Stats, Violation, drive, given_test

ID = "C04"
LEVEL = "exploration"
RULE = ("Hypothesis-generated installations x generated calls, plus exhaustive grids (all temperatures on the 0.05 grid "
        "from min-3 to max+3, all damper values, all enum arguments) on generated installations; non-trivial: the call is "
        "accepted and its frame carries a non-keep field; distinct by (installation, call)."
        " Metamorphic: the last accepted calls repeated (a) alone on a fresh client, (b) as a burst on a fresh client whose link is down "
        "(all pending together, transmitted after the reconnection) must produce the frames they produced in the sequence.")
ASSUMPTIONS = ["zone set-points are generated inside 10..35 degC (the encodable range of both protocols)",
               "undocumented timer / quick-timer frames are read with the layout stated in the module docstrings"]


@st.composite
def _case(draw, gen: int, grid: bool):
    inst = draw(con.installation(gen, max_acs=4 if not grid else 2))
    state = draw(con.full_state(inst))
    if grid:
        return {"inst": inst, "state": state, "calls": "grid"}
    calls = draw(st.lists(cmdrun.calls_strategy(inst, state), min_size=5, max_size=30))
    # the same mode first WITH and then WITHOUT power_on (and the reverse) on one AC: the second frame must mean what
    # the second call asks for, whatever the first one was
    for _ in range(draw(st.integers(0, 2))):
        n = draw(st.sampled_from([a["number"] for a in inst["acs"]]))
        m = draw(st.sampled_from(cmdrun.MODES))
        first = draw(st.booleans())
        pair = [["ac_mode", n, m, first], ["ac_mode", n, m, not first]]
        at = draw(st.integers(0, len(calls)))
        calls[at:at] = pair if draw(st.booleans()) else [pair[0]] + draw(st.lists(cmdrun.calls_strategy(inst, state), max_size=2)) + [pair[1]]
    return {"inst": inst, "state": state, "calls": calls}


def grid_calls(inst, state):
    out = []
    for a in inst["acs"]:
        n = a["number"]
        lo, hi = cmdref.ac_limits(inst, state, n)
        out += [["ac_temp", n, t] for t in cmdrun.temp_grid(lo - 3, hi + 3)]
        out += [["ac_power", n, p] for p in cmdrun.POWERS]
        out += [["ac_mode", n, m, on] for m in cmdrun.MODES for on in (False, True)]
        out += [["ac_fan", n, f] for f in cmdrun.FANS]
    zs = cmdrun.reachable_zones(inst)
    for z in zs[:3]:
        out += [["zone_damper", z, p] for p in range(-5, 106)]
        out += [["zone_power", z, p] for p in cmdrun.ZPOWERS]
        out += [["zone_temp", z, t] for t in cmdrun.temp_grid(10, 35)[::3]]
    return out


def run_case(case, stats: Stats | None):
    inst, state = case["inst"], case["state"]
    calls = grid_calls(inst, state) if case["calls"] == "grid" else case["calls"]
    x = cmdrun.CmdRig(ID, inst, state)
    frames = []   # (index, inner call, (type, data)) of accepted calls
    try:
        for i, c in enumerate(calls):
            tags = x.call(c)
            if "accepted" in tags and x.last_frame is not None:
                frames.append((i, c[3] if c[0] == "with_inbound" else c, (x.last_frame.mtype, bytes(x.last_frame.data))))
            if stats is not None:
                if "wild" in tags:
                    stats.classes["call:zone_temp_wild"] += 1
                    continue
                inner = c[3] if c[0] == "with_inbound" else c
                stats.case([inst["gen"], [a["number"] for a in inst["acs"]], c], "accepted" in tags,
                           classes=tags + [f"call:{inner[0]}", f"gen{inst['gen']}"] + (["call-during-half-received-frame"] if inner is not c else []),
                           sample={"gen": inst["gen"], "call": c, "outcome": tags[0]})
    finally:
        x.dispose()
    # metamorphic: what a call transmits depends on the call and on the console's reports only, not on the calls made
    # before it (the console never applied any of them): the last accepted timer call and the last accepted other call
    # are repeated on a fresh client and must produce the same frame
    if case["calls"] != "grid" and len(frames) >= 2:
        timer = [f for f in frames[1:] if f[1][0].startswith(("timer_", "quick_"))][-1:]
        other = [f for f in frames[1:] if not f[1][0].startswith(("timer_", "quick_"))][-1:]
        for i, c, fr in timer + other:
            y = cmdrun.CmdRig(ID, inst, state)
            try:
                y.call(c)
                got = None if y.last_frame is None else (y.last_frame.mtype, bytes(y.last_frame.data))
            finally:
                y.dispose()
            if got != fr:
                raise Violation(f"C04:history-dependent-frame:{c[0]}",
                                f"{c}: as call #{i} of the sequence it transmitted type={fr[0]:#x} data={fr[1].hex()}, as the only "
                                f"call of a fresh client (same console reports) type={got and hex(got[0])} data={got and got[1].hex()}",
                                {"inst": inst, "state": state, "calls": calls[:i + 1]})
            if stats is not None:
                stats.classes["replayed-on-fresh-client"] += 1
    # metamorphic, second form: a command means the same whether it is transmitted at once or waits in the socket's
    # queue first.  The last (up to four) accepted non-timer calls are made again on a fresh client whose link has just
    # gone down; all of them are pending together, and after the reconnection each frame on the new connection must be
    # the frame the same call produced while connected (same console reports), in call order.
    if case["calls"] != "grid":
        burst = [f for f in frames if not f[1][0].startswith(("timer_", "quick_", "updates"))][-4:]
        if len(burst) >= 2:
            from pav import cmdref, refcodec, refproto
            z = cmdrun.CmdRig(ID, inst, state)
            try:
                rig = z.rig
                rig.net.script.append(("refuse", 0.0))
                rig.net.current.peer_eof()
                rig.loop.settle()
                for i, c, fr in burst:
                    r = rig.loop.call(cmdref.perform(rig, c))
                    if r[0] != "ok":
                        raise Violation(f"C04:raised-while-down:{c[0]}", f"{c}: accepted while connected, but with the link down the call "
                                        f"returned {r!r}", {"inst": inst, "state": state, "calls": [b[1] for b in burst]})
                rig.loop.advance(2.5)
                tr = rig.net.current
                if tr is None:
                    raise Violation("C04:harness", "no reconnection after one refusal", {"inst": inst, "state": state, "calls": []})
                pr = refproto.parse_stream(inst["gen"], tr.tx_bytes())
                got = [(f.mtype, bytes(f.data)) for f in pr.frames
                       if not str(refcodec.read_client_frame(inst["gen"], f.mtype, f.data)[0]).endswith("_req")]
                want = [fr for _i, _c, fr in burst]
                if pr.error or got != want:
                    raise Violation("C04:queued-frame-differs",
                                    f"calls {[b[1] for b in burst]} made while the link was down were transmitted after the reconnection as "
                                    f"{[(hex(t), d.hex()) for t, d in got]}; made while connected (same console reports) they were "
                                    f"{[(hex(t), d.hex()) for t, d in want]} (stream error: {pr.error})",
                                    {"inst": inst, "state": state, "calls": [b[1] for b in burst]})
            finally:
                z.dispose()
            if stats is not None:
                stats.classes["burst-queued-while-down"] += 1


def shards(tier: str):
    n, reps, g = (100, 6, 6) if tier == "quick" else (600, 12, 40)
    out = []
    for gen in (4, 5):
        for k in range(reps):
            out.append({"gen": gen, "grid": False, "n": n, "k": k})
        for k in range(2):
            out.append({"gen": gen, "grid": True, "n": g, "k": k})
    return out


def floors(tier: str):
    return {f"call:{c}": 100 for c in ("ac_power", "ac_mode", "ac_fan", "ac_temp", "zone_power", "zone_temp", "zone_damper")} | \
        {"call:quick_duration": 30, "call:timer_time": 30, "call:timer_clear": 30, "call:updates": 20,
                                                                                       "call-during-half-received-frame": 200,
                                                                                       "replayed-on-fresh-client": 300,
                                                                                       "burst-queued-while-down": 300}


def run_shard(spec, seed: int, tier: str):
    stats = Stats(ID)
    drive(stats, lambda s: given_test(_case(spec["gen"], spec["grid"]), lambda c: stats.guard(run_case, c, stats), s, spec["n"]), seed)
    return stats.result()


def replay(case):
    try:
        run_case(case, None)
    except Violation as v:
        return v.as_dict()
    return None
