"""C12 - subscribers hear about every change, and only about changes.

Engine: Hypothesis-generated histories (operation lists) on an initialised client:
the C10 console push operations (AC / zone / timer status, version, error text,
unknown frames; biased towards exact repeats and single-attribute changes)
interleaved with subscribe / subscribe-again / unsubscribe operations over a pool
of async callables per scope (AirTouch, AC general, AC-state-only, zone), a
generated subset of which raise.

Oracle, per frame and per currently subscribed callable: if the reference model
(pav.refmodel) says an exposed attribute of its entity changed (for AC general
subscribers also: of one of its zones) => called >= 1 time with the right id (AC
id for forwarded zone changes, AirTouch id for version changes) and at most once
per changed record (plus once per error text received); if the frame's record for
that entity is identical to the previous one => not called; AC-state-only
subscribers are never called for a zone-only change; callables not (or no
longer) subscribed are never called; subscribing twice gives no extra calls;
raising callables do not change the calls of the others, and the next frame is
still received on the same connection.  Frames that differ only in bits the API
does not expose (timer-set flag, AT5 turbo flag) are in the unspecified gap:
either behaviour is accepted.
"""

from __future__ import annotations

import copy

from hypothesis import strategies as st

from pav import apiops
from pav import console as con
from pav.harness import Stats, Violation, drive, given_test

ID = "C12"
LEVEL = "exploration"
RULE = ("Hypothesis-generated histories of console pushes x subscribe/unsubscribe placements x raising subsets; "
        "non-trivial: the history contains a notified change and a silent repeat, or a double subscription, an "
        "unsubscription or a raising subscriber; distinct by history")
ASSUMPTIONS = ["only defined protocol values are generated", "subscriber invocation order is not specified and not compared"]


@st.composite
def _history(draw, gen: int, max_ops: int):
    inst = draw(con.installation(gen, max_acs=3))
    state = draw(con.full_state(inst))
    ac_ids = [a["number"] for a in inst["acs"]]
    zone_ids = sorted(con.zones_of(inst))
    targets = [("at", 0)] + [("ac", n) for n in ac_ids] + [("acstate", n) for n in ac_ids] + [("zone", z) for z in zone_ids[:6]] + \
        [("both_ac", n) for n in ac_ids] + [("both_acstate", n) for n in ac_ids]
    sub = st.tuples(st.sampled_from(targets), st.integers(0, apiops.POOL - 1), st.booleans(), st.integers(0, 5), st.integers(0, 5)).map(
        lambda t: ["subscribe", t[0][0], t[0][1], t[1], t[2], t[3] == 0, t[4] == 0])
    unsub = st.integers(0, 1000).map(lambda k: ["unsubscribe_nth", k])
    first = draw(st.lists(sub, min_size=2, max_size=10))
    body = draw(st.lists(st.one_of(apiops.frame_ops(inst), apiops.frame_ops(inst), apiops.frame_ops(inst), sub, unsub),
                         min_size=3, max_size=max_ops))
    ops = first + body
    # bias towards exact repeats and single-attribute changes: a copy of an earlier status frame is re-sent
    # right after it, either verbatim or with exactly one field of one record changed to another defined value
    tweaks = draw(st.lists(st.tuples(st.integers(0, 1000), st.integers(0, 5), st.integers(0, 100), st.integers(0, 1000)), max_size=10))
    for r, how, v, w in tweaks:
        idx = [i for i, o in enumerate(ops) if o[0] in ("ac_status", "zone_status", "timer_status", "version")]
        if not idx:
            break
        i = idx[r % len(idx)]
        o = copy.deepcopy(ops[i])
        if how >= 1 and o[0] in ("ac_status", "zone_status"):
            rec = o[1][v % len(o[1])]
            _mutate_one_field(gen, o[0], rec, w)
        ops.insert(i + 1, o)
    # a slowly creeping reading (one history in three): the same zone record again and again with only the temperature
    # (or only the set-point) moving by ONE raw unit per frame - the smallest change a console can report
    if zone_ids and draw(st.integers(0, 2)) == 0:
        z = draw(st.sampled_from(zone_ids))
        rec = dict(draw(con.zone_state_strategy(gen, z)), sensor=True)
        rec["temp_raw"] = draw(st.integers(600, 900))
        rec["setpoint_raw"] = draw(st.integers(10, 30)) if gen == 4 else draw(st.integers(50, 200))
        field = draw(st.sampled_from(["temp_raw", "temp_raw", "setpoint_raw"]))
        creep = []
        for _ in range(draw(st.integers(3, 7))):
            creep.append(["zone_status", [dict(rec)]])
            rec[field] += draw(st.sampled_from([1, 1, -1]))
        at = draw(st.integers(len(first), len(ops)))
        ops[at:at] = creep
    # an error that comes, goes and comes back (one history in three): the description is one of at most two texts, so the
    # same text is reported again after the error had cleared - which still is a change the subscribers must hear of
    if draw(st.integers(0, 2)) == 0:
        n = draw(st.sampled_from(ac_ids))
        base = draw(con.ac_state_strategy(gen, n))
        texts = draw(st.lists(st.text(st.characters(min_codepoint=0x20, max_codepoint=0x7E), min_size=1, max_size=10), min_size=1, max_size=2))
        story = [["error_mode", draw(st.sampled_from(["text", "text", "silent"])), {str(n): texts[0]}]]
        for c in draw(st.lists(st.sampled_from([0, 0x0101, 0x0101, 0xFFFE]), min_size=3, max_size=7)):
            story.append(["ac_status", [dict(base, error_code=c)]])
            k = draw(st.integers(0, 2))
            if k == 0:
                story.append(["error_info", n, draw(st.sampled_from(texts))])
            elif k == 1:
                story.append(["error_mode", draw(st.sampled_from(["text", "silent"])), {str(n): draw(st.sampled_from(texts))}])
        at = draw(st.integers(len(first), len(ops)))
        ops[at:at] = story
    # resolve "unsubscribe_nth" against the subscriptions active at that point
    active, out = [], []
    for o in ops:
        if o[0] == "subscribe":
            key = (o[1], o[2], o[3])
            if key not in active:
                active.append(key)
            out.append(o)
        elif o[0] == "unsubscribe_nth":
            if active:
                key = active.pop(o[1] % len(active))
                out.append(["unsubscribe", key[0], key[1], key[2]])
            else:
                out.append(["unsubscribe", "at", 0, 0])
        else:
            out.append(o)
    return {"inst": inst, "state": state, "ops": out}


_MODE_FAMILY = ["auto", "auto_heat", "auto_cool"]
_IA_FAMILY = ["ia_quiet", "ia_low", "ia_medium", "ia_high", "ia_powerful", "ia_turbo"]


def _mutate_one_field(gen, kind, rec, w):
    """Change exactly one field of a status record to another defined value."""
    if kind == "ac_status":
        fields = ["power", "mode", "mode", "fan", "fan", "spill", "setpoint_raw", "temp_raw", "error_code", "timer_set"]
        if gen == 5:
            fields += ["bypass", "turbo"]
        f = fields[w % len(fields)]
        if f == "mode":
            fam = _MODE_FAMILY if rec["mode"] in _MODE_FAMILY else ["auto", "heat", "dry", "fan", "cool", "auto_heat", "auto_cool"]
            rec["mode"] = [m for m in fam if m != rec["mode"]][(w // 16) % (len(fam) - 1)]
        elif f == "fan":
            fam = _IA_FAMILY if (gen == 5 and rec["fan"] in _IA_FAMILY) else list(con.FANS4)
            rec["fan"] = [x for x in fam if x != rec["fan"]][(w // 16) % (len(fam) - 1)]
        elif f == "power":
            opts = ["off", "on"] if gen == 4 else ["off", "on", "away_off", "away_on", "sleep"]
            rec["power"] = [x for x in opts if x != rec["power"]][(w // 16) % (len(opts) - 1)]
        elif f in ("spill", "timer_set", "bypass", "turbo"):
            rec[f] = not rec[f]
        elif f == "setpoint_raw":   # the smallest representable step half of the time (one raw unit = 0.1 / 1 degC)
            rec[f] = (rec[f] + (1 if (w // 16) % 2 == 0 else 2 + (w // 32) % 5)) % (64 if gen == 4 else 251)
        elif f == "temp_raw":
            rec[f] = (rec[f] + (1 if (w // 16) % 2 == 0 else 2 + (w // 32) % 50)) % 2001
        else:
            rec["error_code"] = 0 if rec["error_code"] else 1 + (w // 16) % 100
    else:
        fields = ["power", "method", "percent", "setpoint_raw", "sensor", "temp_raw", "spill", "low_battery"]
        f = fields[w % len(fields)]
        if f == "power":
            rec[f] = [x for x in ("off", "on", "turbo") if x != rec[f]][(w // 16) % 2]
        elif f == "method":
            rec[f] = "damper" if rec[f] == "temperature" else "temperature"
        elif f == "percent":
            rec[f] = (rec[f] + 5) % 101
        elif f == "setpoint_raw":
            rec[f] = ((rec[f] or 0) + (1 if (w // 16) % 2 == 0 else 2 + (w // 32) % 5)) % (64 if gen == 4 else 251)
        elif f == "temp_raw":
            rec[f] = ((rec[f] or 0) + (1 if (w // 16) % 2 == 0 else 2 + (w // 32) % 50)) % 2001
        else:
            rec[f] = not rec[f]


def run_history(case, stats: Stats | None):
    x = apiops.ApiInterp(ID, case["inst"], case["state"])
    try:
        for op in case["ops"]:
            x.do(op)
        if stats is not None:
            nt = ("notified" in x.nt and "silent-repeat" in x.nt) or bool(x.nt & {"subscribe-twice", "unsubscribe", "raising-subscriber"})
            stats.case(case, nt, classes=sorted(x.nt) + [f"gen{x.gen}"],
                       sample={"gen": x.gen, "ops": [[o[0]] + [a for a in o[1:] if not isinstance(a, (list, dict))] for o in case["ops"]][:25],
                               "calls": len(x.calls)})
            stats.classes["subscriber-calls"] += len(x.calls)
    finally:
        x.dispose()


def shards(tier: str):
    n, reps, mx = (100, 8, 25) if tier == "quick" else (500, 16, 60)
    return [{"gen": g, "n": n, "k": k, "max_ops": mx} for g in (4, 5) for k in range(reps)]


def floors(tier: str):
    return {"notified": 300, "silent-repeat": 300, "subscribe-twice": 100, "unsubscribe": 100, "raising-subscriber": 100,
            "subscriber-calls": 2000, "same-callable-both-ways": 60,
            "reentrant-subscriber": 100}


def run_shard(spec, seed: int, tier: str):
    stats = Stats(ID)
    drive(stats, lambda s: given_test(_history(spec["gen"], spec["max_ops"]), lambda c: stats.guard(run_history, c, stats), s, spec["n"]), seed)
    return stats.result()


def replay(case):
    try:
        if "ops" in case and case["ops"] and case["ops"][0][0] == "init":
            run_history({"inst": case["ops"][0][1], "state": case["ops"][0][2], "ops": case["ops"][1:]}, None)
        else:
            run_history(case, None)
    except Violation as v:
        return v.as_dict()
    return None
