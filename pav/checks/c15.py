"""C15 - shutdown is final, leak-free and reversible.

Hypothesis @given (scenario x instant of shutdown) + re-init.

A scenario is run twice: a dry run records its own event instants (connection
attempts and completions, retry-timer expiries, arrival of each answer, link
losses, heartbeat / poll / init deadlines); the shutdown instant is then drawn
from those instants with offset -1/16, 0 (registered before or after the
scenario's own timers: both orders of submission) or +1/16, plus uniform
instants.  Phases covered: connect latency in flight, reconnect back-off (2 s
delay), after handshake step k (console silent from step k), initialised and
idle with heartbeat / poll timers armed, 1..10 messages pending while the link is
down, the same instant as a link loss or a frame arrival; bare
`AirTouchSocket.close()` as well as `AirTouchN.shutdown()`.  Afterwards the
network would accept; 10 000 s of idle time; optionally `init()` again against a
*different* installation, then the C09 / C10 oracles.

Oracle.  After shutdown()/close() has returned and the instant has settled (and,
if an init() call of the harness is still in flight, after that call has
returned - it must return False): zero connection attempts, zero bytes written,
zero new connections during the idle period; every connection ever opened is
closed; no task other than the harness's and no live timer handle remains in the
loop; `socket.send(...)` and a command on a retained AC / zone object raise
NotOpenError; `initialised` is False, `air_conditioners` empty.  Re-init returns
True and the model equals the new installation only.
"""

from __future__ import annotations

import asyncio

from hypothesis import strategies as st

import pyairtouch.comms.socket as sockmod

from pav import console as con
from pav import harness, refmodel, sockops
from pav.harness import Stats, Violation, drive, given_test
from pav.rig import ApiRig, SockRig
from pav.vloop import outcome

ID = "C15"
LEVEL = "fault_enumeration"
RULE = ("Hypothesis-generated scenarios (connect script, console delays / silence, link losses, pending sends) x shutdown "
        "instant drawn from the scenario's own event instants (+/- 1/16 s, both same-instant orders) x optional re-init; "
        "non-trivial: shutdown lands while a connection attempt, a retry delay, a handshake or pending messages are in "
        "flight, or in the same instant as a scenario event; distinct by (scenario, instant)"
        " Also: TCP close latency, a console that stops reading, write faults in the instant of a send, resets requested from outside, a third same-instant order with 0..7 loop turns, the instants of the last handshake answers, re-opening the closed socket, close() while a write is stalled by back-pressure, pile-ups of resets in the instant a connection is established, a queue of messages behind a flush that is stalled in drain() when close() comes (writes handed to dead connections are counted exactly at the return of close()).")
ASSUMPTIONS = ["timers and tasks created by the harness (console answer delays, scenario events) are cancelled by the harness at the "
               "shutdown instant and are not counted as leaks",
               "after shutdown the simulated network accepts every connection attempt immediately"]

IDLE = 10000.0


@st.composite
def _api_scenario(draw, gen: int):
    inst = draw(con.installation(gen, max_acs=2))
    state = draw(con.full_state(inst))
    script = draw(st.lists(st.tuples(st.sampled_from(["refuse", "refuse", "timeout", "unreachable"]), st.sampled_from([0.0, 0.125, 1.0])).map(list), max_size=3))
    script.append(["accept", draw(st.sampled_from([0.0, 0.0, 0.125, 1.0, 3.0]))])
    beh = {k: [{"delay": draw(st.sampled_from([0.0, 0.0, 0.125, 1.0]))}] for k in con.STEPS}
    silent = draw(st.one_of(st.none(), st.none(), st.integers(0, 5)))
    if silent is not None:
        beh[con.STEPS[silent]][0]["silent"] = True
    losses = draw(st.lists(st.tuples(st.integers(1, 700 * 16).map(lambda x: x / 16.0), st.integers(0, 2),
                                     st.sampled_from([0.0, 0.125, 1.0])).map(list), max_size=2))
    inst2 = draw(con.installation(gen, max_acs=2))
    state2 = draw(con.full_state(inst2))
    return {"mode": "api", "inst": inst, "state": state, "script": script, "behaviour": beh, "losses": sorted(losses),
            "inst2": inst2, "state2": state2, "reinit": draw(st.booleans()),
            # seconds a TCP close takes to complete: shutdown()'s own close then spans scenario events (heartbeat ticks ...)
            "close_latency": draw(st.sampled_from([0.0, 0.0, 0.125, 1.0])),
            # instant from which the console stops reading (back-pressure: the client's next write is taken, its drain()
            # then blocks - e.g. the periodic heartbeat request), or None
            "stall": draw(st.one_of(st.none(), st.none(), st.sampled_from([3.0, 150.0, 299.0, 299.0, 599.0])))}


@st.composite
def _when(draw):
    return {"pick": draw(st.integers(0, 10000)), "offset": draw(st.sampled_from([-0.0625, 0.0, 0.0, 0.0625])),
            "early": draw(st.booleans()),
            # third same-instant order: the shutdown timer is registered only 1/64 s before T, i.e. AFTER every timer the
            # scenario itself created for T (a console answer due at T is delivered first, shutdown starts right behind it)
            # ... and then lets 0..5 further loop iterations pass inside that instant (the read loop decodes the answer,
            # the subscriber task is created, its first step runs, ...)
            "after": draw(st.sampled_from([False, False, True])), "turns": draw(st.integers(0, 7)),
            "last_answer": draw(st.sampled_from([False, False, False, True])), "reopen": draw(st.booleans()), "uniform": draw(st.one_of(st.none(), st.none(), st.integers(0, 800 * 16).map(lambda x: x / 16.0)))}


def _mk_api(case):
    rig = ApiRig(case["inst"], case["state"], case["behaviour"], connect_script=[tuple(e) for e in case["script"]])
    rig.net.close_latency = case.get("close_latency", 0.0)

    def lose(k, lat):
        tr = rig.net.current
        if tr is not None and tr.alive:
            for _ in range(k):
                rig.net.script.append(("refuse", 0.0))
            rig.net.script.append(("accept", lat))
            tr.peer_reset()
    handles = [rig.loop.call_at(t, lose, k, lat) for t, k, lat in case["losses"]]

    def stall():
        tr = rig.net.current
        if tr is not None and tr.alive:
            tr.pause_after = 1
    if case.get("stall") is not None:
        handles.append(rig.loop.call_at(case["stall"], stall))
    return rig, handles


def _instants(rig, extra=()):
    ts = {e[0] for e in rig.net.log}
    ts |= {r[0] for r in rig.console.requests} if hasattr(rig, "console") else set()
    ts |= {s[0] for s in rig.console.sent} if hasattr(rig, "console") else set()
    ts |= set(extra)
    return sorted(ts)


def _hop(loop, k, fn):
    """Run fn after k further loop iterations of the current instant."""
    if k <= 0:
        fn()
    else:
        loop.call_soon(_hop, loop, k - 1, fn)


def _choose(instants, when, horizon):
    if when["uniform"] is not None:
        return min(when["uniform"], horizon), False
    t = instants[when["pick"] % len(instants)] + when["offset"]
    return max(0.0, t), when["offset"] == 0.0


def check_api(case, when, stats: Stats | None):
    full = {"case": case, "when": when}

    def bad(key, what):
        raise Violation(f"C15:{key}", what, full)

    horizon = 700.0
    if when.get("last_answer"):
        # the last handshake answer arrives in an instant of its own (otherwise "k loop turns into the instant" lands
        # somewhere in the middle of a handshake that runs within one instant)
        last = case["behaviour"][con.STEPS[-1]][0]
        if not last.get("delay"):
            case = dict(case, behaviour=dict(case["behaviour"], **{con.STEPS[-1]: [dict(last, delay=0.125)]}))
    # ---- dry run: the scenario's own event instants
    rig, _h = _mk_api(case)
    try:
        rig.start_init()
        rig.loop.advance(horizon)
        instants = _instants(rig, extra=[5.0, 300.0, 330.0, 600.0] + [t + 2.0 for t, _k, _l in case["losses"]])
        answers = [t for (t, _cid, label, _f) in rig.console.sent if label.startswith("answer:") and t < 6.0]
    finally:
        rig.dispose()
    T, same_instant = _choose(instants, when, horizon)
    if when.get("last_answer") and answers:
        # shutdown lands in the instant in which the console's last handshake answer arrives, a few loop iterations
        # after the delivery (the answer has been read / decoded / is being processed)
        T, same_instant = answers[-1 - (when["pick"] % min(2, len(answers)))], True
        when = dict(when, after=True, early=False, uniform=None)
        full["at_last_answer"] = True

    # ---- real run
    rig = None
    holder = {}

    def build():
        r, hs = _mk_api(case)
        holder["rig"], holder["handles"] = r, hs
        return r

    sd = {}

    def fire():
        r = holder["rig"]
        # retain entities for the "command on a retained object" check
        sd["acs"] = list(r.at.air_conditioners)
        sd["phase"] = (r.at.initialised, r.sock.is_connected, r.net.inflight, len(r.sock._message_queue) if hasattr(r.sock, "_message_queue") else 0)
        sd["task"] = r.loop.spawn(r.at.shutdown())

    if when["early"]:
        # the shutdown timer is registered before anything of the scenario exists
        rig = build()
        # (ApiRig construction schedules nothing at T; registering now precedes init's timers)
        rig.loop.call_at(T, fire)
        rig.start_init()
    elif when.get("after") and T >= 0.015625:
        rig = build()
        rig.start_init()
        rig.loop.call_at(T - 0.015625, lambda: rig.loop.call_at(T, _hop, rig.loop, when.get("turns", 0), fire))
    else:
        rig = build()
        rig.start_init()
        rig.loop.call_at(T, fire)
    try:
        rig.loop.advance_to(T)
        rig.loop.settle()
        if "task" not in sd:
            raise harness.HarnessError("shutdown was not fired")
        # harness-owned timers are not leaks: cancel them now
        for h in holder["handles"]:
            h.cancel()
        rig.console.cancel_all()
        t_guard = rig.loop.time()
        while not sd["task"].done() and rig.loop.time() - t_guard < 10.0:
            rig.loop.advance(0.0625)
        o = outcome(sd["task"])
        if o[0] == "pending":
            bad("shutdown-hangs", "shutdown() did not return within 10 s")
        if o[0] != "ok":
            bad("shutdown-raised", f"shutdown() raised {o[1]!r}")
        t_down = rig.loop.time()
        # let a still running init() return (its own 5 s wait is not a leak)
        while not rig.init_task.done() and rig.loop.time() - t_down < 6.0:
            rig.loop.advance(0.0625)
        oi = outcome(rig.init_task)
        if oi[0] == "pending":
            bad("init-hangs", "init() in flight at shutdown did not return within 6 s")
        if oi[0] == "raise":
            bad("init-raised", f"init() in flight at shutdown raised {oi[1]!r}")
        init_was_done_before = rig.init_returned_at is not None and rig.init_returned_at < T
        if not init_was_done_before and oi == ("ok", True) and rig.init_returned_at > T:
            bad("init-true-after-shutdown", "init() returned True although shutdown() intervened")
        rig.net.heal()
        rig.loop.settle()
        _post_checks(bad, rig, sd, t_mark=len(rig.net.log), api=True)
        phase = sd["phase"]
        classes = ["api", f"gen{case['inst']['gen']}",
                   "phase:initialised" if phase[0] else ("phase:handshake" if phase[1] else
                                                         ("phase:connecting" if phase[2] else "phase:backoff-or-idle"))]
        if same_instant:
            classes.append("same-instant")
        nt = (not phase[0]) or same_instant
        if full.get("at_last_answer") and T >= 0.015625:
            classes.append("at-a-last-handshake-answer")
            if case.get("close_latency"):
                classes.append("at-a-last-handshake-answer+slow-close")
        if case["reinit"]:
            classes.append("reinit")
            _reinit(bad, rig, case)
        if stats is not None:
            stats.case([case, when], nt, classes=classes,
                       sample={"mode": "api", "gen": case["inst"]["gen"], "T": T, "same_instant": same_instant,
                               "phase(initialised,connected,connect-in-flight,queued)": list(phase), "script": case["script"],
                               "losses": case["losses"], "reinit": case["reinit"]})
    finally:
        rig.dispose()


def _post_checks(bad, rig, sd, t_mark, api):
    net, loop = rig.net, rig.loop
    n_attempts, n_conns = len(net.attempts), len(net.conns)
    tx0 = sum(len(c.writes) + len(c.late_writes) for c in net.conns)
    t0 = loop.time()

    def leaks(tag):
        tasks = loop.foreign_tasks()
        if tasks:
            names = [getattr(t.get_coro(), "__qualname__", repr(t.get_coro())) for t in tasks]
            bad("task-leak", f"{tag}: client tasks still pending after shutdown returned: {names}")
        timers = loop.live_timers()
        if timers:
            bad("timer-leak", f"{tag}: {len(timers)} timer(s) still scheduled after shutdown returned "
                              f"(first due at t={timers[0]._when}, now {loop.time()}): {timers[0]!r}"[:400])
    leaks("at return")
    if net.finalizer_closed:
        bad("connection-left-to-finalizer", f"connection {net.finalizer_closed[0]} was never closed by the client (closed only by "
                                            f"StreamWriter.__del__, i.e. by the garbage collector)")
    still_open = sorted(net.open_conns)
    if still_open:
        bad("connection-left-open", f"connections {still_open} are still open after shutdown returned")
    loop.advance(IDLE)
    if len(net.attempts) != n_attempts:
        bad("connect-after-shutdown", f"{len(net.attempts) - n_attempts} connection attempt(s) after shutdown returned "
                                      f"(first at t={net.attempts[n_attempts][0]}, shutdown returned at t={t0})")
    if len(net.conns) != n_conns or net.open_conns:
        bad("connection-after-shutdown", "a connection was established after shutdown returned")
    if sum(len(c.writes) + len(c.late_writes) for c in net.conns) != tx0:
        late = [(t, c.cid) for c in net.conns for t, _b in c.late_writes if t >= t0]
        bad("write-after-shutdown", "bytes were written after shutdown returned" +
            (f" (handed to closed connection(s) at {late[:3]})" if late else ""))
    leaks("after idle period")
    # Reports of the kind "Task exception was never retrieved" for a subscriber task orphaned by the
    # cancellation of its notifier are outside the statement (nothing remains scheduled): not judged.
    errs = harness.unhandled_task_errors()
    if errs:
        bad("task-died", f"a client task died: {errs[0]}")
    # sending raises the not-open error
    gen = rig.gen
    r = loop.call(rig.sock.send(sockops.build(gen, "ac_req", []), sockmod.RETRY_IDEMPOTENT))
    if r[0] != "raise" or not isinstance(r[1], sockmod.NotOpenError):
        bad("send-after-close", f"socket.send() after shutdown: {r!r} instead of NotOpenError")
    if api:
        if rig.at.initialised:
            bad("initialised-true", "initialised is True after shutdown")
        if list(rig.at.air_conditioners):
            bad("model-not-cleared", "air_conditioners is not empty after shutdown")
        for ac in sd.get("acs", ())[:1]:
            r = loop.call(ac.set_power(rig.api.AcPowerControl.TURN_ON))
            if r[0] != "raise" or not isinstance(r[1], sockmod.NotOpenError):
                bad("command-after-shutdown", f"command on a retained AC after shutdown: {r!r} instead of NotOpenError")
            for z in list(ac.zones)[:1]:
                r = loop.call(z.set_damper_percentage(50))
                if r[0] != "raise" or not isinstance(r[1], sockmod.NotOpenError):
                    bad("command-after-shutdown", f"command on a retained zone after shutdown: {r!r} instead of NotOpenError")
    if sum(len(c.writes) + len(c.late_writes) for c in net.conns) != tx0:
        bad("write-after-shutdown", "a command after shutdown wrote bytes")


def _reinit(bad, rig, case):
    from pav.console import Console
    inst2, state2 = case["inst2"], case["state2"]
    rig.console = Console(rig.net, inst2, state2)
    rig.inst = inst2
    r = rig.run_init()
    if r != ("ok", True):
        bad("reinit-failed", f"init() after shutdown against an answering console: {r!r}")
    exp = refmodel.expected_model(inst2, state2)
    acs = rig.at.air_conditioners
    if sorted(a.ac_id for a in acs) != sorted(exp["acs"]):
        bad("reinit-model", f"after re-init air_conditioners = {[a.ac_id for a in acs]}, the new console describes {sorted(exp['acs'])}")
    for ac in acs:
        d = refmodel.compare_entity("ac", ac.ac_id, refmodel.read_ac(ac, rig.api), exp["acs"][ac.ac_id])
        if d:
            bad("reinit-model", f"after re-init AC {ac.ac_id}: {d[0][0]} = {d[0][1]!r}, expected {d[0][2]!r}")
        for z in ac.zones:
            d = refmodel.compare_entity("zone", z.zone_id, refmodel.read_zone(z), exp["zones"][z.zone_id])
            if d:
                bad("reinit-model", f"after re-init zone {z.zone_id}: {d[0][0]} = {d[0][1]!r}, expected {d[0][2]!r}")
    if rig.net.max_open > 1:
        bad("two-connections", "two connections open at once")
    # "a later init() works as on a fresh object": the periodic duties of a fresh object are taken up again
    t2 = rig.loop.time()
    c = rig.console
    n_req = len(c.requests)
    closes0 = len([e for e in rig.net.log if e[1] == "closed" and e[3] == "client"])
    rig.loop.advance(650.0)
    later = c.requests[n_req:]
    hb = [t - t2 for (t, _cid, k, _p, _f) in later if k == "version_req"]
    if [x for x in hb if x > 0] != [300.0, 600.0]:
        bad("reinit-no-heartbeat", f"after re-init the heartbeat requests are seen at +{hb} s, a fresh object sends them at +300, +600")
    if rig.gen == 4 and con.zones_of(inst2):
        polls = [t - t2 for (t, _cid, k, _p, _f) in later if k == "zone_status_req"]
        if polls != [300.0, 600.0]:
            bad("reinit-no-poll", f"after re-init the AT4 group status polls are seen at +{polls} s, a fresh object polls at +300, +600")
    if len([e for e in rig.net.log if e[1] == "closed" and e[3] == "client"]) != closes0:
        bad("reinit-reset", "after re-init the client reset a healthy, answered link")
    # and shut down again: still clean
    o = rig.loop.call(rig.at.shutdown())
    if o[0] != "ok":
        bad("second-shutdown", f"second shutdown(): {o!r}")
    rig.loop.advance(1.0)
    if rig.net.open_conns or rig.loop.foreign_tasks() or rig.loop.live_timers():
        bad("second-shutdown-leak", "second shutdown left a connection, task or timer behind")


# ---------------------------------------------------------------------------- bare socket


@st.composite
def _sock_scenario(draw, gen: int):
    script = draw(st.lists(st.tuples(st.sampled_from(["refuse", "refuse", "timeout", "unreachable"]), st.sampled_from([0.0, 0.125, 1.0])).map(list), max_size=4))
    script.append(["accept", draw(st.sampled_from([0.0, 0.125, 1.0, 3.0]))])
    sends = draw(st.lists(st.tuples(st.integers(0, 12 * 16).map(lambda x: x / 16.0), sockops.kind_and_params(gen),
                                    st.sampled_from(["idem", "nonidem", "conn", [1, 60.0]])).map(list), max_size=10))
    losses = draw(st.lists(st.tuples(st.integers(1, 20 * 16).map(lambda x: x / 16.0), st.integers(0, 3)).map(list), max_size=2))
    # write faults: the n-th write from instant t on fails, and a message is submitted in that same instant - so the
    # reset runs inside the *caller's* task (not one of the socket's own background tasks)
    faults = draw(st.lists(st.tuples(st.integers(1, 12 * 16).map(lambda x: x / 16.0), st.integers(1, 3), sockops.kind_and_params(gen)).map(list),
                           max_size=2))
    for t, _n, kp in faults:
        sends.append([t, kp, "idem"])
    # resets requested from outside the socket (heartbeat style) at arbitrary instants - also while no connection
    # exists (back-off), so that several reconnection attempts / retry delays overlap
    resets = sorted(draw(st.lists(st.integers(1, 12 * 16).map(lambda x: x / 16.0), max_size=3)))
    # the console stops reading from instant t on (back-pressure) and a retryable message is submitted in that instant:
    # its write is taken, its drain() blocks - close() then lands while a transmission is in flight
    stall = draw(st.one_of(st.none(), st.integers(1, 12 * 16).map(lambda x: x / 16.0)))
    if stall is not None:
        sends.append([stall, draw(sockops.kind_and_params(gen)), draw(st.sampled_from(["idem", "idem", "conn", [3, 60.0]]))])
        if draw(st.booleans()):
            # ... and nothing else ends that connection before close() does
            losses = [x for x in losses if x[0] < stall]
            faults = [x for x in faults if x[0] < stall]
            resets = [x for x in resets if x < stall]
    # pile-up (one scenario in four): in the very instant in which a connection is established the console drops it, a
    # message is submitted and two or three resets are requested from outside - overlapping _disconnect() calls, some
    # entered before and some after the connection existed, racing the re-connection
    if draw(st.integers(0, 3)) == 0:
        t0 = script[-1][1] if len(script) == 1 else draw(st.sampled_from([x[0] for x in losses] + [2.0 * (len(script) - 1)]))
        sends.append([t0, draw(sockops.kind_and_params(gen)), draw(st.sampled_from(["conn", "idem"]))])
        if not any(x[0] == t0 for x in losses):
            losses = (losses + [[t0, 0]])[-2:]
        resets = sorted((resets + [t0] * draw(st.integers(2, 3)))[-4:])
    extra = {}
    if draw(st.integers(0, 5)) == 0:
        # queue behind a stalled flush (one scenario in six): three to five messages are submitted while the first
        # connection attempt is still in flight; the console accepts but does not read, so the flush the socket starts on
        # connecting blocks in drain() with the rest of the queue behind it; a caller's send() then joins (its own flush
        # blocks as well, in the caller's task, which close() does not cancel); close() comes 1/16 .. 1 s later and is what
        # releases the blocked drain() calls.  Nothing that is still queued may be handed to any connection afterwards.
        lat = draw(st.sampled_from([0.125, 1.0]))
        script = [["accept", lat]]
        sends = [[0.0, draw(sockops.kind_and_params(gen)), draw(st.sampled_from(["idem", [3, 60.0]]))] for _ in range(draw(st.integers(3, 5)))]
        sends.append([lat + 0.0625, draw(sockops.kind_and_params(gen)), "idem"])
        losses, faults, resets, stall = [], [], [], None
        extra = {"pause_on_accept": 1, "force_T": lat + 0.0625 + draw(st.sampled_from([0.0625, 0.5, 1.0]))}
    return {"mode": "sock", "gen": gen, "script": script, "sends": sorted(sends, key=lambda s: s[0]), "losses": sorted(losses),
            "faults": sorted(faults, key=lambda f: f[0]), "resets": resets, "stall": stall, **extra,
            "loss_kinds": [draw(st.sampled_from(["reset", "eof", "garbage"])) for _ in losses], "close_latency": draw(st.sampled_from([0.0, 0.0, 0.125, 1.0]))}


def _mk_sock(case):
    rig = SockRig(case["gen"])
    for e in case["script"]:
        rig.net.script.append(tuple(e))
    rig.net.close_latency = case.get("close_latency", 0.0)
    if case.get("pause_on_accept"):
        rig.net.pause_on_accept.append(case["pause_on_accept"])
    handles = []

    def send(kp, pol):
        t = rig.loop.spawn(rig.sock.send(sockops.build(case["gen"], kp[0], kp[1]), sockops.policy_of(pol)))
        t.add_done_callback(lambda t: t.cancelled() or t.exception())

    def lose(k, how="reset"):
        tr = rig.net.current
        if tr is not None and tr.alive:
            for _ in range(k):
                rig.net.script.append(("refuse", 0.0))
            if how == "eof":
                tr.peer_eof()                       # the client closes its side itself (close latency applies)
            elif how == "garbage":
                tr.feed(b"\x00\x01\x02garbage!")   # framing violated: the client resets a healthy stream
            else:
                tr.peer_reset()
    def arm(n):
        tr = rig.net.current
        if tr is not None and tr.alive:
            tr.fail_write(n)
    def ext_reset():
        t_ = rig.loop.spawn(rig.sock.reset_connection())     # what the heartbeat does on a timeout
        t_.add_done_callback(lambda t: t.cancelled() or t.exception())
    def stall():
        tr = rig.net.current
        if tr is not None and tr.alive:
            tr.pause_after = 1
    if case.get("stall") is not None:
        handles.append(rig.loop.call_at(case["stall"], stall))
    for t in case.get("resets", ()):
        handles.append(rig.loop.call_at(t, ext_reset))
    for t, n, _kp in case.get("faults", ()):
        handles.append(rig.loop.call_at(t, arm, n))
    for t, kp, pol in case["sends"]:
        handles.append(rig.loop.call_at(t, send, kp, pol))
    kinds = case.get("loss_kinds") or []
    for i, (t, k) in enumerate(case["losses"]):
        handles.append(rig.loop.call_at(t, lose, k, kinds[i] if i < len(kinds) else "reset"))
    return rig, handles


def check_sock(case, when, stats: Stats | None):
    full = {"case": case, "when": when}

    def bad(key, what):
        raise Violation(f"C15:{key}", what, full)

    horizon = 30.0
    rig, _h = _mk_sock(case)
    try:
        rig.open()
        rig.loop.advance(horizon)
        instants = sorted({e[0] for e in rig.net.log} | {t for t, *_ in case["sends"]} | {t + 2.0 for t, _ in case["losses"]} |
                          set(case.get("resets", ())))
        if any(e[1] == "write_fault" for e in rig.net.log):
            full["write_fault"] = True
    finally:
        rig.dispose()
    T, same_instant = _choose(instants, when, horizon)
    if when.get("last_answer") and case.get("faults"):
        # close() lands in the very instant in which a write fails under a caller's send() (all three same-instant orders
        # and 0..7 loop turns apply): the failed message is put back for a retry while / after close() empties the queue
        T, same_instant = case["faults"][when["pick"] % len(case["faults"])][0], True
        when = dict(when, uniform=None)
        full["close_at_write_fault"] = True
    if case.get("force_T") is not None:
        T, same_instant = case["force_T"], False
        when = dict(when, uniform=None, early=False, after=False)
        full["queue_behind_stalled_flush"] = True
    sd = {}
    rig, handles = None, None

    def fire():
        sd["phase"] = (rig.sock.is_connected, rig.net.inflight, len(rig.sock._message_queue))
        tr = rig.net.current
        sd["stalled"] = bool(tr is not None and tr.alive and tr.write_paused)
        async def closer():
            await rig.sock.close()
            # exactly at the return of close(): what the client hands to dead connections from here on comes after it
            sd["late_at_return"] = sum(len(c.late_writes) for c in rig.net.conns)
        sd["task"] = rig.loop.spawn(closer())
    if when["early"]:
        rig = SockRig(case["gen"])
        rig.loop.call_at(T, fire)
        rig2, handles = _mk_sock_on(rig, case)
        rig.open()
    elif when.get("after") and T >= 0.015625:
        rig, handles = _mk_sock(case)
        rig.open()
        rig.loop.call_at(T - 0.015625, lambda: rig.loop.call_at(T, _hop, rig.loop, when.get("turns", 0), fire))
    else:
        rig, handles = _mk_sock(case)
        rig.open()
        rig.loop.call_at(T, fire)
    try:
        rig.loop.advance_to(T)
        rig.loop.settle()
        for h in handles:
            h.cancel()
        t_guard = rig.loop.time()
        while not sd["task"].done() and rig.loop.time() - t_guard < 10.0:
            rig.loop.advance(0.0625)
        o = outcome(sd["task"])
        if o[0] != "ok":
            bad("close-failed", f"close(): {o!r}")
        rig.net.heal()
        rig.loop.settle()
        late = [(t, c.cid, b.hex()[:24]) for c in rig.net.conns for t, b in c.late_writes][sd.get("late_at_return", 0):]
        if late:
            bad("write-after-shutdown", f"close() had returned; afterwards the client handed bytes to connection(s) that were already "
                                        f"closed: (t, connection, first bytes) {late[:3]} - messages still queued at close() were flushed")
        if when.get("reopen"):
            # the socket is opened again straight away (what a re-init does): it must behave like a fresh one - connect,
            # and transmit nothing of its own accord; in particular nothing that was submitted before close()
            n_conn = len(rig.net.conns)
            r = rig.loop.call(rig.sock.open_socket())
            if r[0] != "ok":
                bad("reopen-failed", f"open_socket() after close(): {r!r}")
            rig.loop.advance(3.0)
            new = rig.net.conns[n_conn:]
            if not new or not rig.sock.is_connected:
                bad("reopen-no-connection", "a re-opened socket did not connect within 3 s to an accepting console")
            stale = b"".join(c.tx_bytes() for c in new)
            if stale:
                bad("stale-message-after-reopen", f"a re-opened socket transmitted {len(stale)} bytes nobody submitted after the "
                                                  f"re-open ({stale.hex()[:60]}): messages held at close() survived it")
            # ... and it heals like a fresh one: the console drops the connection, the client reconnects
            tr_new = rig.net.current
            tr_new.peer_eof()
            rig.loop.advance(3.0)
            cur = rig.net.current
            if cur is None or cur is tr_new or not cur.alive or not rig.sock.is_connected:
                bad("reopened-does-not-heal", "a re-opened socket did not reconnect within 3 s after the console closed its connection "
                                              "(a freshly created socket does)")
            o2 = rig.loop.call(rig.sock.close())
            if o2[0] != "ok":
                bad("close-failed", f"second close(): {o2!r}")
            rig.loop.settle()
        _post_checks(bad, rig, sd, len(rig.net.log), api=False)
        ph = sd["phase"]
        classes = ["sock", f"gen{case['gen']}", "phase:connected" if ph[0] else ("phase:connecting" if ph[1] else "phase:backoff-or-idle")]
        if ph[2]:
            classes.append("pending-messages")
        if full.get("write_fault"):
            classes.append("write-fault-in-caller-task")
        if when.get("reopen"):
            classes.append("reopened")
        if full.get("close_at_write_fault"):
            classes.append("close-in-the-instant-of-a-write-fault")
        if sd.get("stalled"):
            classes.append("close-while-a-write-is-stalled")
        if full.get("queue_behind_stalled_flush") and sd.get("stalled") and ph[2]:
            classes.append("queue-behind-a-stalled-flush")
        if same_instant:
            classes.append("same-instant")
        if stats is not None:
            stats.case([case, when], (not ph[0]) or same_instant or bool(ph[2]), classes=classes,
                       sample={"mode": "sock", "gen": case["gen"], "T": T, "phase(connected,connect-in-flight,queued)": list(ph),
                               "script": case["script"], "sends": len(case["sends"]), "losses": case["losses"]})
    finally:
        rig.dispose()


def _mk_sock_on(rig, case):
    for e in case["script"]:
        rig.net.script.append(tuple(e))
    rig.net.close_latency = case.get("close_latency", 0.0)
    handles = []

    def send(kp, pol):
        t = rig.loop.spawn(rig.sock.send(sockops.build(case["gen"], kp[0], kp[1]), sockops.policy_of(pol)))
        t.add_done_callback(lambda t: t.cancelled() or t.exception())

    def lose(k, how="reset"):
        tr = rig.net.current
        if tr is not None and tr.alive:
            for _ in range(k):
                rig.net.script.append(("refuse", 0.0))
            if how == "eof":
                tr.peer_eof()                       # the client closes its side itself (close latency applies)
            elif how == "garbage":
                tr.feed(b"\x00\x01\x02garbage!")   # framing violated: the client resets a healthy stream
            else:
                tr.peer_reset()
    def arm(n):
        tr = rig.net.current
        if tr is not None and tr.alive:
            tr.fail_write(n)
    def ext_reset():
        t_ = rig.loop.spawn(rig.sock.reset_connection())     # what the heartbeat does on a timeout
        t_.add_done_callback(lambda t: t.cancelled() or t.exception())
    def stall():
        tr = rig.net.current
        if tr is not None and tr.alive:
            tr.pause_after = 1
    if case.get("stall") is not None:
        handles.append(rig.loop.call_at(case["stall"], stall))
    for t in case.get("resets", ()):
        handles.append(rig.loop.call_at(t, ext_reset))
    for t, n, _kp in case.get("faults", ()):
        handles.append(rig.loop.call_at(t, arm, n))
    for t, kp, pol in case["sends"]:
        handles.append(rig.loop.call_at(t, send, kp, pol))
    kinds = case.get("loss_kinds") or []
    for i, (t, k) in enumerate(case["losses"]):
        handles.append(rig.loop.call_at(t, lose, k, kinds[i] if i < len(kinds) else "reset"))
    return rig, handles


def shards(tier: str):
    n, reps = (150, 4) if tier == "quick" else (1200, 8)
    out = []
    for g in (4, 5):
        for k in range(reps):
            out.append({"mode": "api", "gen": g, "n": n, "k": k})
            out.append({"mode": "sock", "gen": g, "n": n, "k": k})
    return out


def floors(tier: str):
    return {"same-instant": 50, "phase:connecting": 20, "phase:backoff-or-idle": 20, "phase:handshake": 10, "phase:initialised": 20,
            "pending-messages": 10, "reinit": 30, "write-fault-in-caller-task": 40, "close-while-a-write-is-stalled": 15, "close-in-the-instant-of-a-write-fault": 40, "at-a-last-handshake-answer+slow-close": 20,
            "queue-behind-a-stalled-flush": 40}


def run_shard(spec, seed: int, tier: str):
    stats = Stats(ID)
    gen = spec["gen"]
    if spec["mode"] == "api":
        strat = st.tuples(_api_scenario(gen), _when())
        drive(stats, lambda s: given_test(strat, lambda c: stats.guard(check_api, c[0], c[1], stats), s, spec["n"]), seed)
    else:
        strat = st.tuples(_sock_scenario(gen), _when())
        drive(stats, lambda s: given_test(strat, lambda c: stats.guard(check_sock, c[0], c[1], stats), s, spec["n"]), seed)
    return stats.result()


def replay(case):
    try:
        if case["case"]["mode"] == "api":
            check_api(case["case"], case["when"], None)
        else:
            check_sock(case["case"], case["when"], None)
    except Violation as v:
        return v.as_dict()
    return None
