"""C19 - the unified API behaves the same over AirTouch 4 and AirTouch 5.

Engine: Hypothesis-generated lock-step histories driving two clients (an AT4 and
an AT5 one), each against its own simulated console describing an *equivalent*
installation (differential testing).

Generated: installations expressible in both protocols (<= 4 ACs numbered 0..3,
integer limits equal for heat and cool, contiguous zone ranges, AT4 zones with
turbo support, no intelligent-auto / away / sleep), status histories with
integer temperatures and common enum values, command sequences with common
arguments and - to test rejection symmetry - arguments unsupported by the common
ability (modes / fan speeds the AC does not advertise, INTELLIGENT_AUTO, damper
out of range, set-point on a zone without sensor).

Oracle.  After every step every attribute both generations support is equal on
the two clients; each call raises on both or on neither (same exception type);
the independent semantic readings (pav.refcodec) of the two emitted frames are
equal modulo the documented differences (set-point resolution, zone control-type
tolerance, away/sleep).  Each side is additionally checked against the reference
model / command expectation so that a common-mode error is not hidden.
"""

from __future__ import annotations

import copy

from hypothesis import strategies as st

from pav import apiops, cmdrun, fakenet, refcodec, refmodel
from pav import console as con
from pav.harness import Stats, Violation, drive, given_test

ID = "C19"
LEVEL = "exploration"
RULE = ("Hypothesis-generated equivalent installations + lock-step histories of status pushes and public calls on an AT4 and "
        "an AT5 client; non-trivial: the history contains a rejected call, or a status push changing an attribute, or >= 3 "
        "accepted calls; distinct by history")
ASSUMPTIONS = ["documented differences are excluded from the comparison: target_temperature_resolution, supported_power_controls "
               "(away/sleep), bypass reporting, per-mode limits (limits are generated equal for heat and cool)",
               "temperatures are integers so that both resolutions agree"]

DIFF_ATTRS = {"target_temperature_resolution", "supported_power_controls"}


@st.composite
def _common(draw):
    n_ac = draw(st.integers(1, 3))
    nz = draw(st.one_of(st.integers(0, 8), st.integers(9, 16), st.just(16)))   # up to the full 16 zones (numbers 0..15)
    cuts = sorted(draw(st.lists(st.integers(0, nz), min_size=n_ac - 1, max_size=n_ac - 1)))
    cuts = [0] + cuts + [nz]
    acs = []
    for i in range(n_ac):
        lo = draw(st.integers(10, 34))
        acs.append({"number": i, "name": draw(con.name_strategy(16)), "modes": sorted(draw(st.sets(st.sampled_from(con.MODES)))),
                    "fans": sorted(draw(st.sets(st.sampled_from(con.FANS4)))), "lo": lo, "hi": draw(st.integers(lo, 35)),
                    "start": cuts[i], "count": cuts[i + 1] - cuts[i]})
    zones = {str(z): draw(con.name_strategy(8)) for z in range(nz)}
    return {"acs": acs, "zones": zones, "version": {"update": draw(st.booleans()), "versions": ["1.2.3"]}}


def split_inst(c):
    i4 = {"gen": 4, "form": "bitmap", "acs": [], "zones": dict(c["zones"]), "version": dict(c["version"]), "zero_zones": False}
    i5 = {"gen": 5, "form": "range", "acs": [], "zones": dict(c["zones"]), "version": dict(c["version"]), "zero_zones": not c["zones"]}
    for a in c["acs"]:
        base = {k: a[k] for k in ("number", "name", "modes", "fans", "start", "count")}
        i4["acs"].append(dict(base, min_sp=a["lo"], max_sp=a["hi"], groups=list(range(a["start"], a["start"] + a["count"]))))
        i5["acs"].append(dict(base, min_cool=a["lo"], max_cool=a["hi"], min_heat=a["lo"], max_heat=a["hi"]))
    return i4, i5


def ac_rec(gen, r):
    if gen == 4:
        return dict(number=r["number"], power=r["power"], mode=r["mode"], fan=r["fan"], spill=r["spill"], timer_set=r["timer_set"],
                    setpoint_raw=r["sp"], temp_raw=r["temp_raw"], error_code=r["error_code"])
    return dict(number=r["number"], power=r["power"], mode=r["mode"], fan=r["fan"], setpoint_raw=r["sp"] * 10 - 100, turbo=False,
                bypass=False, spill=r["spill"], timer_set=r["timer_set"], temp_raw=r["temp_raw"], error_code=r["error_code"])


def zone_rec(gen, r):
    if gen == 4:
        return dict(number=r["number"], power=r["power"], method=r["method"], percent=r["percent"], low_battery=r["low_battery"],
                    turbo_support=True, setpoint_raw=r["sp"], sensor=r["sensor"],
                    # "temp_na": the sensor is paired but reports no temperature (both protocols have a sentinel for it)
                    temp_raw=r["temp_raw"] if (r["sensor"] and not r.get("temp_na")) else None,
                    spill=r["spill"])
    return dict(number=r["number"], power=r["power"], method=r["method"], percent=r["percent"],
                # without a sensor the AT5 record either carries 0xFF or still carries a set-point byte ("sp_stale")
                setpoint_raw=(r["sp"] * 10 - 100) if (r["sensor"] or r.get("sp_stale")) else None, sensor=r["sensor"],
                temp_raw=r["temp_raw"] if (r["sensor"] and not r.get("temp_na")) else None, spill=r["spill"],
                low_battery=r["low_battery"])


def _ac_common(n):
    return st.fixed_dictionaries({
        "number": st.just(n), "power": st.sampled_from(["off", "on"]),
        "mode": st.sampled_from(["auto", "heat", "dry", "fan", "cool", "auto_heat", "auto_cool"]),
        "fan": st.sampled_from(con.FANS4), "spill": st.booleans(), "timer_set": st.booleans(), "sp": st.integers(10, 35),
        "temp_raw": st.integers(0, 200).map(lambda v: v * 10),
        # few distinct codes, so that consecutive reports often carry the SAME non-zero code with other attributes changed
        "error_code": st.one_of(st.just(0), st.sampled_from([5, 5, 0x0101]), st.integers(1, 65535))})


def _zone_common(n):
    return st.fixed_dictionaries({
        "number": st.just(n), "power": st.sampled_from(["off", "on", "turbo"]), "method": st.sampled_from(["damper", "temperature"]),
        "percent": st.integers(0, 100), "low_battery": st.booleans(), "sp": st.integers(10, 35), "sensor": st.booleans(),
        "temp_raw": st.integers(0, 200).map(lambda v: v * 10), "spill": st.booleans(), "sp_stale": st.booleans(),
        "temp_na": st.sampled_from([False, False, True])})


@st.composite
def _history(draw):
    c = draw(_common())
    i4, i5 = split_inst(c)
    ac_ids = [a["number"] for a in c["acs"]]
    zone_ids = sorted(int(z) for z in c["zones"])
    st0 = {"acs": {str(n): draw(_ac_common(n)) for n in ac_ids}, "zones": {str(z): draw(_zone_common(z)) for z in zone_ids},
           "timers": {str(n): draw(con.timer_strategy) for n in ac_ids}}
    reach = cmdrun.reachable_zones(i5)
    ops = []
    for _ in range(draw(st.integers(3, 25))):
        k = draw(st.sampled_from(["push_ac", "push_ac", "push_zone", "push_timer", "error_mode", "call", "call", "call", "call", "reinit"]))
        if k == "reinit":
            ops.append(["reinit"])
            continue
        if k == "push_ac":
            ops.append(["push_ac", [draw(_ac_common(n)) for n in draw(st.lists(st.sampled_from(ac_ids), min_size=1, max_size=3))]])
        elif k == "push_zone" and zone_ids:
            ops.append(["push_zone", [draw(_zone_common(n)) for n in draw(st.lists(st.sampled_from(zone_ids), min_size=1, max_size=3))]])
        elif k == "push_timer":
            ops.append(["push_timer", {str(n): draw(con.timer_strategy) for n in ac_ids}])
        elif k == "error_mode":
            etext = st.text(st.characters(min_codepoint=0x20, max_codepoint=0x7E), min_size=1, max_size=12)
            ops.append(["error_mode", draw(st.sampled_from(["text", "text", "empty", "silent"])),
                        draw(st.dictionaries(st.sampled_from([str(n) for n in ac_ids]), etext))])
        else:
            ac = draw(st.sampled_from(ac_ids))
            opts = [
                st.sampled_from(["TOGGLE", "TURN_OFF", "TURN_ON"]).map(lambda p: ["ac_power", ac, p]),
                st.tuples(st.sampled_from(cmdrun.MODES), st.booleans()).map(lambda t: ["ac_mode", ac, t[0], t[1]]),
                st.sampled_from(cmdrun.FANS).map(lambda f: ["ac_fan", ac, f]),
                st.integers(5, 40).map(lambda t: ["ac_temp", ac, float(t)]),
                st.tuples(st.sampled_from(cmdrun.TIMERS), st.integers(0, 1500), cmdrun._MILLIS).map(lambda t: ["quick_duration", ac, *t]),
                st.tuples(st.sampled_from(cmdrun.TIMERS), st.integers(0, 23), st.integers(0, 59), cmdrun._MILLIS).map(lambda t: ["timer_time", ac, *t]),
                st.sampled_from(cmdrun.TIMERS).map(lambda t: ["timer_clear", ac, t]),
                st.just(["updates"]),
            ]
            if reach:
                z = draw(st.sampled_from(reach))
                opts += [st.sampled_from(cmdrun.ZPOWERS).map(lambda p: ["zone_power", z, p]),
                         st.integers(10, 35).map(lambda t: ["zone_temp", z, float(t)]),
                         st.integers(-3, 103).map(lambda p: ["zone_damper", z, p])]
            ops.append(["call", draw(st.one_of(*opts))])
    return {"common": c, "state": st0, "ops": ops}


def _state_for(gen, st0):
    return {"acs": {k: ac_rec(gen, v) for k, v in st0["acs"].items()}, "zones": {k: zone_rec(gen, v) for k, v in st0["zones"].items()},
            "timers": copy.deepcopy(st0["timers"])}


def _norm_frame(gen, fr, call):
    kind, payload = refcodec.read_client_frame(gen, fr.mtype, fr.data)
    if kind in ("ac_control", "zone_control"):
        r = payload[0]
        out = {"kind": kind, "target": r["target"], "power": r["power"]}
        if kind == "ac_control":
            out.update(mode=r["mode"], fan=r["fan"], setpoint=r["setpoint"], value=None if r["value"] is None else float(r["value"]))
        else:
            out.update(setting=r["setting"], value=None if r["value"] is None else float(r["value"]))
        return out
    if kind == "timer_control":
        # only the addressed AC is compared: the AT4 frame always carries four records (undocumented message; the
        # records of the other ACs are zero-filled by the library - noted in DESIGN.md, not judged here)
        return {"kind": kind, "recs": sorted((p["number"], str(p["on"]), str(p["off"])) for p in payload if p["number"] == call[1])}
    return {"kind": kind, "payload": payload}


def run_history(case, stats: Stats | None):
    i4, i5 = split_inst(case["common"])
    s4, s5 = _state_for(4, case["state"]), _state_for(5, case["state"])
    sides = {}
    try:
        for gen, inst, state in ((4, i4, s4), (5, i5, s5)):
            x = apiops.ApiInterp(ID, inst, state)
            sides[gen] = (x, cmdrun.CmdRig(ID, inst, x.state, rig=x.rig))

        def bad(key, what):
            raise Violation(f"C19:{key}", what, case)

        def use(gen):
            fakenet._CURRENT[0] = sides[gen][0].rig.net

        def compare(when):
            a4 = {n: refmodel.read_ac(ac, sides[4][0].rig.api) for n, ac in sides[4][0].acs.items()}
            a5 = {n: refmodel.read_ac(ac, sides[5][0].rig.api) for n, ac in sides[5][0].acs.items()}
            if sorted(a4) != sorted(a5):
                bad("ac-set", f"{when}: AT4 exposes ACs {sorted(a4)}, AT5 {sorted(a5)}")
            for n in a4:
                for k in a4[n]:
                    if k in DIFF_ATTRS:
                        continue
                    if k == "zones":
                        # the order of an AC's zone list is not specified (AT4 builds it from a set): compare as sets
                        if sorted(a4[n][k]) != sorted(a5[n][k]):
                            bad("ac-attr:zones", f"{when}: AC {n}.zones: AT4 {sorted(a4[n][k])} != AT5 {sorted(a5[n][k])} for equivalent consoles")
                        continue
                    if a4[n][k] != a5[n][k]:
                        bad(f"ac-attr:{k}", f"{when}: AC {n}.{k}: AT4 {a4[n][k]!r} != AT5 {a5[n][k]!r} for equivalent consoles")
            z4 = {n: refmodel.read_zone(z) for n, z in sides[4][0].zones.items()}
            z5 = {n: refmodel.read_zone(z) for n, z in sides[5][0].zones.items()}
            if sorted(z4) != sorted(z5):
                bad("zone-set", f"{when}: AT4 exposes zones {sorted(z4)}, AT5 {sorted(z5)}")
            for n in z4:
                for k in z4[n]:
                    if k in DIFF_ATTRS:
                        continue
                    r5 = sides[5][0].state["zones"][str(n)]
                    if k == "target_temperature" and not r5["sensor"] and r5["setpoint_raw"] is not None:
                        # not expressible in both protocols as the library reads them: an AT4 group without sensor has
                        # no set-point, an AT5 zone record may still carry one (each side is still checked against its
                        # own reference model, and requests must be accepted / rejected alike)
                        continue
                    if z4[n][k] != z5[n][k]:
                        bad(f"zone-attr:{k}", f"{when}: zone {n}.{k}: AT4 {z4[n][k]!r} != AT5 {z5[n][k]!r} for equivalent consoles")

        compare("after init")
        n_rej = n_acc = n_push = 0
        for op in case["ops"]:
            if op[0] == "reinit":
                # both applications reload their client (shutdown + init on the same object)
                for gen in (4, 5):
                    use(gen)
                    sides[gen][0].do(["reinit"])
                    sides[gen][1].console_reported()
                n_push += 1
                compare("after re-init")
                continue
            if op[0] == "error_mode":
                for gen in (4, 5):
                    use(gen)
                    sides[gen][0].do(["error_mode", op[1], dict(op[2])])
                continue
            if op[0] in ("push_ac", "push_zone", "push_timer"):
                for gen in (4, 5):
                    use(gen)
                    x = sides[gen][0]
                    if op[0] == "push_ac":
                        x.do(["ac_status", [ac_rec(gen, r) for r in op[1]]])
                    elif op[0] == "push_zone":
                        x.do(["zone_status", [zone_rec(gen, r) for r in op[1]]])
                    else:
                        x.do(["timer_status", copy.deepcopy(op[1])])
                n_push += 1
                for gen in (4, 5):
                    sides[gen][1].console_reported()
                compare(f"after {op[0]}")
            else:
                call = op[1]
                outs = {}
                for gen in (4, 5):
                    use(gen)
                    x, cr = sides[gen]
                    cr.state = x.state
                    tags = cr.call(call)     # judged against the reference expectation of its own generation
                    outs[gen] = (tags[0], cr.last_frame)
                if outs[4][0] != outs[5][0]:
                    bad("accept-reject-asymmetry", f"{call}: AT4 {outs[4][0]}, AT5 {outs[5][0]} for equivalent consoles")
                if outs[4][0] == "accepted":
                    n_acc += 1
                    f4, f5 = _norm_frame(4, outs[4][1], call), _norm_frame(5, outs[5][1], call)
                    if f4 != f5:
                        bad("meaning-differs", f"{call}: AT4 frame means {f4}, AT5 frame means {f5}")
                else:
                    n_rej += 1
                compare(f"after {call[0]}")
        if stats is not None:
            classes = ["rejected-call"] * (1 if n_rej else 0) + ["pushes"] * (1 if n_push else 0) + [f"acs:{len(case['common']['acs'])}"]
            stats.case(case, bool(n_rej or n_push or n_acc >= 3), classes=classes,
                       sample={"acs": len(case["common"]["acs"]), "zones": len(case["common"]["zones"]),
                               "ops": [o if o[0] == "call" else [o[0]] for o in case["ops"]][:15]})
            stats.classes["calls-accepted"] += n_acc
            stats.classes["calls-rejected"] += n_rej
    finally:
        for x, _ in sides.values():
            x.dispose()


def shards(tier: str):
    n, reps = (60, 16) if tier == "quick" else (400, 16)
    return [{"n": n, "k": k} for k in range(reps)]


def floors(tier: str):
    return {"rejected-call": 100, "pushes": 200, "calls-accepted": 1000, "calls-rejected": 200}


def run_shard(spec, seed: int, tier: str):
    stats = Stats(ID)
    drive(stats, lambda s: given_test(_history(), lambda c: stats.guard(run_history, c, stats), s, spec["n"]), seed)
    return stats.result()


def replay(case):
    try:
        if "common" not in case and "ops" in case and case["ops"] and case["ops"][0][0] == "init":
            return None
        run_history(case, None)
    except Violation as v:
        return v.as_dict()
    return None
