"""C07 - the connection heals itself, never wedges, and stays single.

Engine: RuleBasedStateMachine over an open AirTouchSocket.  Fault script of depth
<= 12 (quick) / <= 25 (thorough) over {refuse / connect timeout / name resolution
failure, accept with latency l in {0, 1/8, 1, 2, 3}, peer EOF, peer reset, garbage
bytes, frame with bad CRC, truncated frame then EOF, undecodable payload with
good CRC, write fault on the n-th write, unencodable message submitted while up
or while down (struct.error / ValueError / NotImplementedError), subscribers
that raise, external reset_connection()} interleaved with sends of normal
commands, delivery of valid frames, advance(dt) with dt from
{0, 1/8, 1, 2-1/8, 2, 2+1/8, 5} and same-instant combinations (two faults before
the loop turns).

Oracle.  At every network event: open connections <= 1.  After the script the
network behaves (every armed fault / script entry is cleared); within
B = 2 x (2 s + max latency) + 1 s of virtual time the client is connected, a
status frame fed on the current connection reaches the subscriber, a command
submitted now is written on the current connection, and every other connection
ever opened is closed.  No send of a valid message raised anything but the
documented QueueOverflowError; no unhandled-exception report for client tasks.
"""

from __future__ import annotations

from hypothesis import strategies as st
from hypothesis.stateful import RuleBasedStateMachine, rule

import pyairtouch.comms
import pyairtouch.comms.socket as sockmod

from pav import harness, refproto, sockops
from pav.harness import Stats, Violation, drive, machine_test
from pav.vloop import Livelock
from pav.rig import SockRig, make_header

ID = "C07"
LEVEL = "fault_enumeration"
RULE = ("stateful generation of fault scripts (see module docstring) against a live socket; non-trivial: >= 2 distinct "
        "fault kinds, or two faults in one instant, or an encode failure while the link is down; distinct by operation trace")
ASSUMPTIONS = [
    "fake transport mirrors asyncio selector transport semantics (fatal error => closing, connection_lost next turn)",
    "healing bound B = 2 x (2 s + 3 s) + 1 s = 11 s of virtual time after the network behaves",
]

LATS = [0.0, 0.125, 1.0, 2.0, 3.0]
DTS = [0.0, 0.125, 1.0, 1.875, 2.0, 2.125, 5.0]
BOUND = 11.0


def s2c_frame(gen: int, which: int = 0) -> bytes:
    """A valid console->client frame (independent hand encoding)."""
    if gen == 4:
        data = bytes([0x40 | (which & 0x0F), 0x64, 0x00, 0x00, 0xFF, 0x00])  # 4:200 group status
        return refproto.frame4(0xB0, 0x80, which & 0xFF, 0x2B, data)
    data = bytes([0x21, 0, 0, 0, 0, 8, 0, 1, 0x40 | (which & 0x0F), 0x80, 0x96, 0x80, 0x02, 0xE7, 0, 0])  # 5:241
    return refproto.frame5(0xB0, 0x80, which & 0xFF, 0xC0, data)


def undecodable_frame(gen: int, variant: int) -> bytes:
    if gen == 4:
        if variant % 2 == 0:   # group power state 0b10 is not defined (4:178)
            return refproto.frame4(0xB0, 0x80, 1, 0x2B, bytes([0x80, 0x64, 0, 0, 0xFF, 0]))
        return refproto.frame4(0xB0, 0x80, 1, 0x2B, bytes([0x40, 0x64, 0, 0, 0xFF]))  # length not a multiple of 6
    if variant % 2 == 0:       # zone power state 0b10 not defined (5:217)
        return refproto.frame5(0xB0, 0x80, 1, 0xC0, bytes([0x21, 0, 0, 0, 0, 8, 0, 1, 0x80, 0x80, 0x96, 0x80, 2, 0xE7, 0, 0]))
    return refproto.frame5(0xB0, 0x80, 1, 0xC0, bytes([0x21, 0, 0, 0, 0, 4, 0, 1, 0x40, 0x80, 0x96, 0x80]))  # stride < 8


def bad_message(gen: int, variant: str):
    """(message, header|None, expected exception family) whose encoding fails."""
    import pyairtouch.at4.comms.x1F_ext as e4
    import pyairtouch.at4.comms.x1FFF11_ac_ability as ab4
    import pyairtouch.at4.comms.x2A_group_ctrl as gc4
    import pyairtouch.at5.comms.x1F_ext as e5
    import pyairtouch.at5.comms.x1FFF11_ac_ability as ab5
    import pyairtouch.at5.comms.xC0_ctrl_status as c05
    import pyairtouch.at5.comms.xC020_zone_ctrl as zc5
    if variant == "struct":
        if gen == 4:
            return gc4.GroupControlMessage(300, gc4.GroupPowerControl.TURN_ON, gc4.GroupControlMethod.UNCHANGED, None), None
        return c05.ControlStatusMessage(zc5.ZoneControlMessage([zc5.ZoneControlData(300, zc5.ZonePowerControl.TURN_ON, None)])), None
    if variant == "value":
        if gen == 4:
            return e4.ExtendedMessage(ab4.AcAbilityRequest(300)), None
        return e5.ExtendedMessage(ab5.AcAbilityRequest(300)), None
    msg = pyairtouch.comms.UnsupportedMessage(0x99, b"")
    return msg, make_header(gen, 0x80, 0xB0, 7, 0x99, 0)


class Interp:
    def __init__(self, gen: int) -> None:
        self.gen = gen
        self.rig = SockRig(gen)
        self.ops = [["gen", gen]]
        self.broken = None
        try:
            self.rig.open()
        except Livelock as exc:
            self.broken = Violation("C07:livelock", f"opening the socket against an accepting console: the client never becomes idle: {exc}",
                                    {"ops": self.ops})
        self.kinds: set = set()
        self.nt: set = set()
        self.raisers = 0
        self.dirty: set = set()  # connections that were fed something other than whole valid frames

    def case(self):
        return {"ops": self.ops}

    def bad(self, key, what):
        raise Violation(f"C07:{key}", what, self.case())

    @property
    def cur(self):
        return self.rig.net.current

    # -- execution ----------------------------------------------------------------
    def do(self, op):
        if self.broken is not None:
            raise self.broken
        self.ops.append(op)
        if op[0] == "multi":
            self.nt.add("same-instant")
            for sub in op[1]:
                self.apply(sub)
        else:
            self.apply(op)
        try:
            self.rig.loop.settle()
        except Livelock as exc:
            # the client keeps itself busy for ever inside one instant (e.g. reconnecting in a tight loop): it can
            # neither receive nor transmit again - the opposite of healing
            self.bad("livelock", f"after {op[0]} the client never becomes idle: {exc}")
        self.invariant()

    def apply(self, op):
        """Perform the immediate action of an op without letting the loop turn."""
        name, args = op[0], op[1:]
        loop, net = self.rig.loop, self.rig.net
        cur = self.cur
        if name != "gen":
            self.kinds.add(name)
        if name in ("garbage", "badcrc", "trunc_eof", "undecodable") and cur is not None:
            self.dirty.add(cur.cid)
        if name == "script":
            for e in args[0]:
                net.script.append(tuple(e))
        elif name == "eof":
            if cur and cur.alive:
                cur.peer_eof()
        elif name == "reset":
            if cur and cur.alive:
                cur.peer_reset()
        elif name == "garbage":
            if cur and cur.alive:
                cur.feed(bytes.fromhex(args[0]))
        elif name == "badcrc":
            if cur and cur.alive:
                f = bytearray(s2c_frame(self.gen, args[0]))
                f[-1 - (args[0] & 1)] ^= 0x40
                cur.feed(bytes(f))
        elif name == "trunc_eof":
            if cur and cur.alive:
                f = s2c_frame(self.gen, 3)
                cur.feed(f[: 1 + args[0] % (len(f) - 1)])
                cur.peer_eof()
        elif name == "undecodable":
            if cur and cur.alive:
                cur.feed(undecodable_frame(self.gen, args[0]))
        elif name == "frame":
            if cur and cur.alive:
                cur.feed(s2c_frame(self.gen, args[0]))
        elif name == "writefault":
            if cur and cur.alive:
                cur.fail_write(args[0])
        elif name == "send":
            kind, params, pol = args
            msg = sockops.build(self.gen, kind, params)
            cyc = getattr(self, "_cycle", None)
            in_cycle = (cyc is not None and not cyc.done()) or not self.rig.sock.is_open
            t = loop.spawn(self.rig.sock.send(msg, sockops.policy_of(pol)))
            if in_cycle:
                # submitted while the application is closing / re-opening the socket: NotOpenError is the documented answer
                t.add_done_callback(lambda t: t.cancelled() or t.exception())
            else:
                t.add_done_callback(self._valid_send_done)
        elif name == "send_bad":
            msg, hdr = bad_message(self.gen, args[0])
            if not self.rig.sock.is_connected:
                self.nt.add("encode-failure-while-down")
            if hdr is None:
                t = loop.spawn(self.rig.sock.send(msg, sockmod.RETRY_IDEMPOTENT))
            else:
                t = loop.spawn(self.rig.sock.send_with_header(hdr, msg, sockmod.RETRY_IDEMPOTENT))
            t.add_done_callback(lambda t: t.cancelled() or t.exception())  # may raise: the message is invalid
        elif name == "raisers":
            async def boom_msg(h, m):
                raise RuntimeError("subscriber failure (message)")

            async def boom_conn(*, connected):
                raise RuntimeError("subscriber failure (connection)")
            self.rig.sock.subscribe_on_message_received(boom_msg)
            self.rig.sock.subscribe_on_connection_changed(boom_conn)
            self.raisers += 1
        elif name == "sender":
            # a connection subscriber that transmits as soon as the link is reported up (as the API classes do)
            if not getattr(self, "_sender", False):
                self._sender = True
                rig = self.rig

                async def on_conn(*, connected):
                    if connected:
                        await rig.sock.send(sockops.build(self.gen, "ac_req", []), sockmod.RETRY_CONNECTED)
                        await rig.sock.send(sockops.build(self.gen, "zone_req", []), sockmod.RETRY_CONNECTED)
                self.rig.sock.subscribe_on_connection_changed(on_conn)
        elif name == "arm":
            net.arm_on_accept.extend(args[0])
        elif name == "close_latency":
            net.close_latency = args[0]
        elif name == "reopen":
            # the application closes the socket and opens it again straight away (what shutdown() + init() do): from
            # then on it is an open client again and everything above applies to it
            async def cycle():
                await self.rig.sock.close()
                await self.rig.sock.open_socket()
            prev = getattr(self, "_cycle", None)
            if prev is None or prev.done():      # one application task does this, never two at once
                self._cycle = loop.spawn(cycle())
                self._cycle.add_done_callback(lambda t: t.cancelled() or t.exception())
                self.reopened = True
        elif name == "ext_reset":
            t = loop.spawn(self.rig.sock.reset_connection())
            t.add_done_callback(lambda t: t.cancelled() or t.exception())
        elif name == "advance":
            loop.advance(args[0])
        elif name == "gen":
            pass
        else:
            raise harness.HarnessError(f"unknown op {op}")

    def _valid_send_done(self, task):
        if task.cancelled():
            return
        exc = task.exception()
        if exc is not None and not isinstance(exc, sockmod.QueueOverflowError):
            self._send_error = exc

    _send_error = None

    # -- oracle -------------------------------------------------------------------
    def invariant(self):
        net = self.rig.net
        if net.max_open > 1:
            self.bad("two-connections", f"{net.max_open} connections were open at the same time")
        if net.finalizer_closed:
            self.bad("abandoned-not-closed", f"connection {net.finalizer_closed[0]} was dropped by the client without being closed "
                                             f"(it was closed only by StreamWriter.__del__, i.e. by the garbage collector)")
        if self._send_error is not None:
            self.bad("valid-send-raised", f"send of a valid message raised {self._send_error!r}")
        unhandled = self.rig.loop.unhandled
        if getattr(self, "reopened", False):
            # close() cancels the read loop; a subscriber task it had just started and that raises on purpose is then
            # reported as 'never retrieved' - nothing of the client is affected (same note as in C15)
            unhandled = [u for u in unhandled if "subscriber failure" not in str(u.get("exception", ""))]
        if unhandled:
            self.bad("unhandled-exception", f"unhandled exception reported to the loop: {unhandled[0]}")
        errs = harness.unhandled_task_errors()
        if errs:
            self.bad("task-died", f"a background task of the client died: {errs[0]}")
        for tr in [c for c in net.conns if c.alive]:
            if tr.rx_log and refproto.parse_stream(self.gen, bytes(tr.rx_log)).error:
                self.bad("garbled-connection-kept", f"connection {tr.cid} received bytes that violate the framing "
                                                    f"({bytes(tr.rx_log).hex()[:80]}) yet was not dropped")

    def finish(self):
        if self.broken is not None:
            raise self.broken
        net, loop, sock = self.rig.net, self.rig.loop, self.rig.sock
        net.heal()
        try:
            loop.settle()
        except Livelock as exc:
            self.bad("livelock", f"once the network behaves the client never becomes idle: {exc}")
        self.invariant()
        t0 = loop.time()
        while not (sock.is_connected and self.cur is not None and self.cur.alive) and loop.time() - t0 < BOUND:
            loop.advance(0.125)
            self.invariant()
        if not sock.is_connected or self.cur is None or not self.cur.alive:
            self.bad("not-connected", f"network behaves for {BOUND} s yet the client is not connected "
                                      f"(is_connected={sock.is_connected}, open connections={sorted(net.open_conns)})")
        loop.advance(0.125)
        cur = self.cur
        if cur is None or not cur.alive or not sock.is_connected:
            self.bad("not-connected", "connection did not stay up on a healthy network")
        # receiving.  A connection whose inbound stream ends inside a (garbled) frame is
        # desynchronised: no receiver can tell; the console/network drops it and the
        # probe goes on the next, clean connection.
        pr = refproto.parse_stream(self.gen, bytes(cur.rx_log))
        if pr.incomplete:
            self.ops.append(["reset"])
            cur.peer_reset()
            loop.settle()
            t0 = loop.time()
            while not (sock.is_connected and self.cur is not None and self.cur.alive) and loop.time() - t0 < BOUND:
                loop.advance(0.125)
            cur = self.cur
            if cur is None or not sock.is_connected:
                self.bad("not-connected", "client did not reconnect after a desynchronised connection was dropped")
        n0 = len(self.rig.received)
        cur.feed(s2c_frame(self.gen, 9))
        loop.settle()
        self.invariant()
        if self.cur is not cur or not cur.alive:
            self.bad("probe-reset", "a valid status frame on the healed connection caused a reset")
        if len(self.rig.received) != n0 + 1:
            self.bad("deaf", f"a status frame sent on the healed connection was not delivered "
                             f"({len(self.rig.received) - n0} deliveries)")
        # transmitting
        kind, params = "zone_pct", [1, 55]
        w0 = len(cur.tx_bytes())
        r = loop.call(sock.send(sockops.build(self.gen, kind, params), sockmod.RETRY_IDEMPOTENT))
        if r[0] != "ok":
            self.bad("probe-send", f"command submitted on the healed connection: {r!r}")
        mtype, data = sockops.expect(self.gen, kind, params)
        tail = cur.tx_bytes()[w0:]
        pr = refproto.parse_stream(self.gen, tail)
        if pr.error or pr.incomplete or not pr.frames or (pr.frames[-1].mtype, pr.frames[-1].data) != (mtype, data):
            self.bad("mute", f"command submitted on the healed connection is not on its wire (wrote {tail.hex()[:120]})")
        # single, and everything abandoned is closed
        others = [c.cid for c in net.conns if c is not cur and c.alive]
        if others:
            self.bad("abandoned-open", f"abandoned connections {others} were never closed")
        self.invariant()

    def dispose(self):
        self.rig.dispose()


FAULTS = ["reopen", "eof", "reset", "garbage", "badcrc", "trunc_eof", "undecodable", "writefault", "send_bad", "ext_reset", "script", "arm",
          "close_latency"]


def _simple_op(gen):
    return st.one_of(
        st.just(["eof"]), st.just(["reset"]), st.just(["ext_reset"]), st.just(["reopen"]),
        st.binary(min_size=1, max_size=40).map(lambda b: ["garbage", b.hex()]),
        st.integers(0, 15).map(lambda n: ["badcrc", n]),
        st.integers(0, 40).map(lambda n: ["trunc_eof", n]),
        st.integers(0, 1).map(lambda n: ["undecodable", n]),
        st.integers(0, 15).map(lambda n: ["frame", n]),
        st.integers(1, 3).map(lambda n: ["writefault", n]),
        st.tuples(sockops.kind_and_params(gen), st.sampled_from(["idem", "nonidem", "conn"])).map(
            lambda t: ["send", t[0][0], t[0][1], t[1]]),
        st.sampled_from(["struct", "value", "notimpl"]).map(lambda v: ["send_bad", v]),
        st.lists(st.tuples(st.sampled_from(["refuse", "timeout", "gaierror", "unreachable", "accept", "accept"]), st.sampled_from(LATS)).map(list),
                 min_size=1, max_size=3).map(lambda s: ["script", s]),
        st.lists(st.integers(1, 6), min_size=1, max_size=3).map(lambda a: ["arm", a]),
    )


def make_machine(gen: int, stats: Stats):
    class Machine(RuleBasedStateMachine):
        def __init__(self):
            super().__init__()
            self.x = Interp(gen)
            self.dead = False

        def _do(self, op):
            if self.dead or stats.bail:
                return
            try:
                self.x.do(op)
            except Violation as v:
                self.dead = True
                if v.key == "C07:livelock":
                    stats.fatal = True   # each further case costs a full livelock: report and stop
                    if stats.best is not None:
                        stats.bail = True
                if stats.filter(v):
                    raise

        @rule(op=_simple_op(gen))
        def one(self, op):
            self._do(op)

        @rule(a=_simple_op(gen), b=_simple_op(gen))
        def two_in_one_instant(self, a, b):
            self._do(["multi", [a, b]])

        @rule(dt=st.sampled_from(DTS))
        def advance(self, dt):
            self._do(["advance", dt])

        @rule()
        def sending_subscriber(self):
            self._do(["sender"])

        @rule(arm=st.lists(st.integers(1, 6), min_size=1, max_size=3), how=st.sampled_from(["eof", "reset"]),
              dt=st.sampled_from(DTS))
        def faulty_reconnection(self, arm, how, dt):
            """The next connection(s) fail on one of their first writes (half-open link)."""
            self._do(["sender"])
            self._do(["arm", arm])
            self._do([how])
            self._do(["advance", dt])

        @rule(lat=st.sampled_from([0.0, 0.125, 0.25, 0.5]))
        def slow_close(self, lat):
            self._do(["close_latency", lat])

        @rule(kp=sockops.kind_and_params(gen), n=st.integers(1, 3), lat=st.sampled_from([0.0, 0.125]),
              close_lat=st.sampled_from([0.125, 0.25, 0.5]), dt=st.sampled_from([1.5, 1.75, 1.875, 2.0]),
              fault=_simple_op(gen), dt2=st.sampled_from(DTS))
        def failed_first_write_then_fault(self, kp, n, lat, close_lat, dt, fault, dt2):
            """A message is pending while the link is down; the first write on the new connection fails (which leaves a
            delayed reconnection attempt behind); roughly two seconds later, with a transport that takes a while to
            close, another fault arrives."""
            self._do(["script", [["accept", lat]]])
            self._do(["reset"])
            self._do(["send", kp[0], kp[1], "idem"])
            self._do(["arm", [n]])
            self._do(["advance", lat])
            self._do(["close_latency", close_lat])
            self._do(["advance", dt])
            self._do(fault)
            self._do(["advance", dt2])

        @rule(close_lat=st.sampled_from([0.25, 0.5, 1.0]),
              first=st.one_of(st.just(["eof"]), st.integers(0, 15).map(lambda n: ["badcrc", n]), st.just(["undecodable", 0]),
                              st.just(["ext_reset"])),
              gap=st.sampled_from([0.0, 0.0, 0.125]), n_ext=st.integers(1, 2), lat=st.sampled_from([0.0, 0.0, 0.125]),
              dt=st.sampled_from(DTS))
        def overlapping_resets(self, close_lat, first, gap, n_ext, lat, dt):
            """A reset is still waiting for the old stream to finish closing (slow close) when another reset is
            requested from outside the read loop (what the heartbeat does); the console accepts the new connection
            faster than the old one closes."""
            self._do(["close_latency", close_lat])
            self._do(["script", [["accept", lat]] * (1 + n_ext)])
            self._do(first)
            for _ in range(n_ext):
                if gap:
                    self._do(["advance", gap])
                self._do(["ext_reset"])
            self._do(["advance", dt])

        @rule()
        def raising_subscribers(self):
            if self.x.raisers < 2:
                self._do(["raisers"])

        @rule(k=st.integers(0, 2), lat=st.sampled_from(LATS), op=_simple_op(gen), dt=st.sampled_from(DTS))
        def outage(self, k, lat, op, dt):
            """refusals then an accept with latency, a link loss, something during the outage."""
            self._do(["script", [["refuse", 0.0]] * k + [["accept", lat]]])
            self._do(["reset"])
            self._do(op)
            self._do(["advance", dt])

        def teardown(self):
            try:
                if not self.dead and not stats.bail:
                    self.dead = True
                    stats.guard(self.x.finish)
                    fk = self.x.kinds & set(FAULTS)
                    nt = len(fk) >= 2 or bool(self.x.nt)
                    stats.case(self.x.ops, nt, classes=sorted(self.x.nt) + [f"gen{gen}"] + [f"fault:{k}" for k in sorted(fk)],
                               sample={"gen": gen, "ops": self.x.ops[:12], "n_ops": len(self.x.ops),
                                       "connections": len(self.x.rig.net.conns)})
            finally:
                self.x.dispose()

    return Machine


def shards(tier: str):
    n, steps, reps = (800, 12, 8) if tier == "quick" else (1500, 25, 16)
    return [{"gen": g, "n": n, "steps": steps, "k": k} for g in (4, 5) for k in range(reps)]


def floors(tier: str):
    return {"same-instant": 80, "encode-failure-while-down": 20, "fault:writefault": 50, "fault:badcrc": 50, "fault:arm": 100}


def run_shard(spec, seed: int, tier: str):
    stats = Stats(ID)
    drive(stats, lambda s: machine_test(make_machine(spec["gen"], stats), s, spec["n"], spec["steps"]), seed)
    return stats.result()


def replay(case):
    ops = case["ops"]
    x = Interp(ops[0][1])
    try:
        for op in ops[1:]:
            x.do(op)
        x.finish()
    except Violation as v:
        return v.as_dict()
    finally:
        x.dispose()
    return None
