"""C17 - unknown and malformed input is tolerated, never misread.

Hypothesis @given structured generation + mutation on a live socket.

(a) every message type byte 0..255 and, for 0x1F, sub-ids over {known +- 1,
    generated}, for 0xC0 sub-types 0..255, with generated payloads of consistent
    length.  Oracle: exactly one UnsupportedMessage (bare or inside the wrapper)
    carrying the id and the payload bytes unchanged, the same connection still in
    use, the next known frame delivered on it.
(b) known status messages with strides >= the known size through the real
    wrappers; oracle: equals the independent reading of the known prefix.
(c) valid frames (independent console writer) mutated: byte flips / inserts /
    deletes *with CRC and lengths recomputed* (reaches the decoders), without
    recomputation (reaches the framing), truncation + EOF, splices of two
    frames, pure random bytes; each followed by intact probe frames.  Oracle =
    differential against the independent receive model and readers: the
    delivered frames are exactly a prefix-consistent subset of the frames the
    receive model accepts; every delivered status message equals the reference
    meaning of its frame (a frame whose reading has an UNDEFINED code must not be
    delivered); no unhandled exception of the receive task; afterwards the client
    reconnects if it had to and the probes are delivered.
"""

from __future__ import annotations

import struct

from hypothesis import strategies as st

from pav import harness, refcodec, refproto
from pav.checks import c05
from pav.harness import Stats, Violation, drive, given_test
from pav.rig import SockRig

ID = "C17"
LEVEL = "exploration"
RULE = ("(a) enumeration of all type bytes / 0xC0 sub-types and generated 0x1F sub-ids with generated payloads; (b,c) Hypothesis-"
        "generated valid console frames with generated mutations (re-checksummed or raw), truncations, splices and random "
        "bytes, judged against the independent receive model and readers.  Non-trivial: the input is not a sequence of "
        "unmodified known frames; distinct by input bytes. Also: an intact frame followed by a copy with one bit of its header or checksum flipped.")
ASSUMPTIONS = ["payloads for which the documents give no reading (inconsistent inner lengths, invalid UTF-8) may be delivered or rejected",
               "an inbound stream that ends inside a frame is dropped by the simulated console before the probes are sent"]

KNOWN_TYPES = {4: {0x1F, 0x2A, 0x2B, 0x2C, 0x2D, 0x36, 0x37}, 5: {0x1F, 0xC0}}
KNOWN_EXT = {4: {0xFF10, 0xFF11, 0xFF12, 0xFF20, 0xFF30}, 5: {0xFF10, 0xFF11, 0xFF13, 0xFF30, 0xFF49}}
KNOWN_C0 = {0x20, 0x21, 0x22, 0x23, 0x32, 0x33}


def probe(gen: int, n: int) -> bytes:
    if gen == 4:
        return refproto.frame4(0xB0, 0x80, n & 0xFF, 0x2B, bytes([0x40 | (n & 0x0F), 0x64, 0x00, 0x00, 0xFF, 0x00]))
    return refproto.frame5(0xB0, 0x80, n & 0xFF, 0xC0, bytes([0x21, 0, 0, 0, 0, 8, 0, 1, 0x40 | (n & 0x0F), 0x80, 0x96, 0x80, 2, 0xE7, 0, 0]))


def status_kind(gen: int, mtype: int, data: bytes):
    """Name of the C05 decoder kind a frame belongs to (None if not a status kind)."""
    if gen == 4:
        if mtype == 0x2B:
            return "at4_group_status"
        if mtype == 0x2D:
            return "at4_ac_status"
        if mtype == 0x37:
            return "at4_timer_status"
        if mtype == 0x1F and len(data) >= 2:
            return {0xFF11: "at4_ability", 0xFF12: "at4_names", 0xFF10: "at4_err", 0xFF30: "at4_version"}.get((data[0] << 8) | data[1])
        return None
    if mtype == 0xC0 and len(data) >= 8:
        return {0x21: "at5_zone_status", 0x23: "at5_ac_status", 0x33: "at5_timer_status"}.get(data[0])
    if mtype == 0x1F and len(data) >= 2:
        return {0xFF11: "at5_ability", 0xFF13: "at5_names", 0xFF10: "at5_err", 0xFF30: "at5_version"}.get((data[0] << 8) | data[1])
    return None


# --------------------------------------------------------------------------- (a)


def check_unknown(gen: int, mtype: int, data: bytes, frm: int, stats: Stats | None, tag: str):
    case = {"part": "unknown", "gen": gen, "mtype": mtype, "data": data.hex(), "from": frm}

    def bad(key, what):
        raise Violation(f"C17:{key}", what, case)

    rig = SockRig(gen)
    try:
        rig.open()
        tr = rig.net.conns[0]
        tr.feed(refproto.frame(gen, 0xB0, frm, 5, mtype, data))
        tr.feed(probe(gen, 3))
        rig.loop.settle()
        if len(rig.net.conns) != 1 or not tr.alive:
            bad("unknown-disturbs", f"a well-formed frame of unknown type/sub-type {mtype:#x}/{data[:2].hex()} reset the connection")
        if len(rig.received) != 2:
            bad("unknown-delivery", f"{len(rig.received)} messages delivered for an unknown frame followed by a known one")
        m = rig.received[0][2]
        inner = m
        exp_id, exp_raw = mtype, data
        if mtype == 0x1F:
            inner = getattr(m, "sub_message", None)
            exp_id, exp_raw = (data[0] << 8) | data[1], data[2:]
        elif mtype == 0xC0 and gen == 5:
            inner = getattr(m, "sub_message", None)
            exp_id, exp_raw = data[0], data[8:]
        if type(inner).__name__ != "UnsupportedMessage":
            bad("unknown-not-unsupported", f"unknown id {exp_id:#x} delivered as {type(inner).__name__}")
        if inner.message_id != exp_id or bytes(inner.raw_data) != exp_raw:
            bad("unknown-payload-changed", f"unsupported message carries id {inner.message_id:#x} / {bytes(inner.raw_data).hex()}, "
                                           f"the frame carried {exp_id:#x} / {exp_raw.hex()}")
        h = rig.received[0][1]
        if (h.message_id, h.message_length, h.from_address) != (mtype, len(data), frm):
            bad("unknown-header", "header of the delivered unsupported message differs from the frame")
        if harness.unhandled_task_errors() or rig.loop.unhandled:
            bad("unhandled", "unhandled exception in the receive task")
        if stats is not None:
            stats.evaluations += 1
            stats.nt_disjoint += 1
            stats.classes[tag] += 1
    finally:
        rig.dispose()


# --------------------------------------------------------------------------- (b), (c)


def check_stream(gen: int, stream: bytes, eof: bool, probes: int, stats: Stats | None, tag: str, originals=()):
    case = {"part": "stream", "gen": gen, "stream": stream.hex(), "eof": eof, "probes": probes}

    def bad(key, what):
        raise Violation(f"C17:{key}", what, case)

    model = refproto.parse_stream(gen, stream)
    rig = SockRig(gen)
    try:
        rig.open()
        tr = rig.net.conns[0]
        tr.feed(stream)
        if eof:
            tr.peer_eof()
        rig.loop.settle()
        if harness.unhandled_task_errors():
            bad("receive-task-died", f"the receive task died: {harness.unhandled_task_errors()[0]}")
        if rig.loop.unhandled:
            bad("unhandled", f"unhandled exception: {rig.loop.unhandled[0]}")
        delivered = list(rig.received)
        if len(delivered) > len(model.frames):
            bad("extra-delivery", f"{len(delivered)} messages delivered, the receive model accepts only {len(model.frames)} frames")
        stopped_at = None
        for i, fr in enumerate(model.frames):
            kind = status_kind(gen, fr.mtype, fr.data)
            verdict = None
            if kind is not None:
                verdict, probs = c05.judge(kind, fr.data)
                real = [p for p in probs if not p[0].startswith("C05:F9:")]
                if real:
                    bad("misread:" + real[0][0].split(":")[1], f"frame #{i} ({kind}): {real[0][1]}")
            if i < len(delivered):
                h = delivered[i][1]
                if (h.to_address, h.from_address, h.packet_id, h.message_id, h.message_length) != (fr.to, fr.frm, fr.pid, fr.mtype, len(fr.data)):
                    bad("wrong-frame", f"delivery #{i} has header {(h.to_address, h.from_address, h.packet_id, h.message_id)}, "
                                       f"the stream's frame #{i} is {(fr.to, fr.frm, fr.pid, fr.mtype)}")
                if verdict == "undefined":
                    bad("undefined-delivered", f"frame #{i} ({kind}) carries a code the documents do not define but was delivered")
                # whatever is delivered as an 'unsupported' message must carry the identifier and payload the frame holds
                m = delivered[i][2]
                inner = getattr(m, "sub_message", m)
                if type(inner).__name__ == "UnsupportedMessage":
                    if fr.mtype == 0x1F:
                        exp_id, exp_raw = (int.from_bytes(fr.data[:2], "big"), fr.data[2:]) if len(fr.data) >= 2 else (None, b"")
                    elif fr.mtype == 0xC0 and gen == 5:
                        exp_id, exp_raw = (fr.data[0], fr.data[8:]) if len(fr.data) >= 8 else (None, b"")
                    else:
                        exp_id, exp_raw = fr.mtype, fr.data
                    if exp_id is None or inner.message_id != exp_id or bytes(inner.raw_data) != bytes(exp_raw):
                        bad("invented-message", f"frame #{i} (type {fr.mtype:#x}, data {fr.data.hex()}) was delivered as an unsupported "
                                                f"message with id {inner.message_id:#x} / payload {bytes(inner.raw_data).hex()!r}: "
                                                + ("the frame is too short to carry a sub-type at all" if exp_id is None else
                                                   f"the frame holds {exp_id:#x} / {bytes(exp_raw).hex()!r}"))
            else:
                stopped_at = i
                # the client stopped delivering here: legitimate only if this frame is rejectable
                if kind is not None and verdict in ("defined", "request"):
                    bad("defined-dropped", f"frame #{i} ({kind}) is fully defined but was not delivered")
                if kind is None and fr.mtype not in KNOWN_TYPES[gen]:
                    bad("unknown-dropped", f"frame #{i} of unknown type {fr.mtype:#x} was not delivered")
                break
        # ---- recovery
        must_reset = model.error is not None or stopped_at is not None
        cur = rig.net.current
        if must_reset and cur is tr and tr.alive and not eof:
            bad("garbled-connection-kept", f"the stream violates the framing / carries an undecodable frame (model error "
                                           f"{model.error}, stopped at {stopped_at}) yet the connection was kept")
        if not must_reset and not eof and not model.incomplete and (cur is not tr or not tr.alive):
            bad("spurious-reset", "a stream of well-formed, decodable frames reset the connection")
        if (model.incomplete and not model.error and stopped_at is None and not eof) and cur is tr and tr.alive:
            tr.peer_reset()   # desynchronised: the console drops the connection
        rig.loop.settle()
        t0 = rig.loop.time()
        while not (rig.sock.is_connected and rig.net.current is not None and rig.net.current.alive) and rig.loop.time() - t0 < 5.0:
            rig.loop.advance(0.125)
        cur = rig.net.current
        if cur is None or not rig.sock.is_connected:
            bad("no-recovery", "client did not reconnect within 5 s after malformed input")
        if cur is tr and (model.incomplete or model.error):
            bad("no-recovery", "client kept a desynchronised connection")
        n0 = len(rig.received)
        for k in range(probes):
            cur.feed(probe(gen, k))
        rig.loop.settle()
        if len(rig.received) - n0 != probes or rig.net.current is not cur:
            bad("probe-not-delivered", f"{len(rig.received) - n0} of {probes} intact frames delivered after the input")
        if rig.net.max_open > 1:
            bad("two-connections", "two connections open at once")
        if harness.unhandled_task_errors():
            bad("receive-task-died", f"the receive task died: {harness.unhandled_task_errors()[0]}")
        if stats is not None:
            nt = not (model.error is None and not model.incomplete and all(stream[f.start:f.end] in originals for f in model.frames))
            classes = [tag, f"gen{gen}", "model:error" if model.error else ("model:incomplete" if model.incomplete else "model:clean")]
            if stopped_at is not None:
                classes.append("decoder-rejected")
            stats.case(stream.hex(), nt, classes=classes,
                       sample={"gen": gen, "stream": stream.hex()[:200], "tag": tag, "frames_accepted_by_model": len(model.frames),
                               "delivered": len(delivered), "model_error": model.error})
    finally:
        rig.dispose()


def _console_frame(gen: int):
    """(kind, frame) written by the independent console writer."""
    kinds = [k for k, v in c05.KINDS.items() if v["gen"] == gen]

    def build(t):
        kind, payload, pid = t
        k = c05.KINDS[kind]
        frm = 0x90 if k["mtype"] == 0x1F else 0x80
        return kind, refproto.frame(gen, 0xB0, frm, pid, k["mtype"], payload)
    return st.sampled_from(kinds).flatmap(lambda kind: st.tuples(st.just(kind), c05.BASES[kind], st.integers(0, 255))).map(build)


def _reframe(gen: int, frame: bytes, data: bytes) -> bytes:
    fr = refproto.parse_all(gen, frame)[0]
    return refproto.frame(gen, fr.to, fr.frm, fr.pid, fr.mtype, data)


@st.composite
def _mutated_stream(draw, gen: int):
    n = draw(st.integers(1, 3))
    frames = [draw(_console_frame(gen))[1] for _ in range(n)]
    originals = list(frames)
    how = draw(st.sampled_from(["recomputed", "recomputed", "recomputed", "raw", "raw", "truncate", "splice", "random", "stride", "echo"]))
    i = draw(st.integers(0, n - 1))
    eof = False
    fr = refproto.parse_all(gen, frames[i])[0]
    if how == "recomputed":
        data = bytearray(fr.data)
        for _ in range(draw(st.integers(1, 3))):
            op = draw(st.sampled_from(["flip", "flip", "set", "insert", "delete"]))
            if not data:
                op = "insert"
            pos = draw(st.integers(0, max(0, len(data) - 1)))
            if op == "flip":
                data[pos] ^= 1 << draw(st.integers(0, 7))
            elif op == "set":
                data[pos] = draw(st.integers(0, 255))
            elif op == "insert":
                data.insert(pos, draw(st.integers(0, 255)))
            elif op == "delete":
                del data[pos]
        frames[i] = _reframe(gen, frames[i], bytes(data))
    elif how == "raw":
        b = bytearray(frames[i])
        for _ in range(draw(st.integers(1, 3))):
            op = draw(st.sampled_from(["flip", "set", "insert", "delete"]))
            pos = draw(st.integers(0, len(b) - 1))
            if op == "flip":
                b[pos] ^= 1 << draw(st.integers(0, 7))
            elif op == "set":
                b[pos] = draw(st.integers(0, 255))
            elif op == "insert":
                b.insert(pos, draw(st.integers(0, 255)))
            elif len(b) > 1:
                del b[pos]
        frames[i] = bytes(b)
    elif how == "echo":
        # the intact frame is followed by a copy of itself in which one bit outside the payload (addresses, packet id or
        # the checksum itself) differs and the checksum was NOT recomputed: same type, same payload, means nothing
        b = bytearray(frames[i])
        h0 = 2 if gen == 4 else 4
        pos = draw(st.sampled_from([h0, h0 + 1, h0 + 2, len(b) - 2, len(b) - 1]))
        b[pos] ^= 1 << draw(st.integers(0, 7))
        frames.insert(i + 1, bytes(b))
        eof = draw(st.booleans())
    elif how == "splice":
        a, b = frames[i], frames[draw(st.integers(0, n - 1))]
        frames[i] = a[: draw(st.integers(1, len(a) - 1))] + b[draw(st.integers(1, len(b) - 1)):]
    elif how == "random":
        frames[i] = draw(st.binary(min_size=1, max_size=60))
    elif how == "stride" and gen == 5 and fr.mtype == 0xC0 and len(fr.data) >= 8:
        # same records, but announced behind a non-empty "normal data" section (generic 0xC0 layout, lengths consistent)
        sub, _z, normal, rlen, rcount = struct.unpack(">BBHHH", fr.data[:8])
        extra = draw(st.binary(min_size=1, max_size=6))
        data = bytes([sub, 0]) + struct.pack(">HHH", normal + len(extra), rlen, rcount) + extra + fr.data[8:]
        frames[i] = _reframe(gen, frames[i], data)
        how = "c0-normal-section"
    return {"stream": b"".join(frames), "eof": eof, "how": how, "originals": originals}


def shards(tier: str):
    out = []
    reps, n = (6, 400) if tier == "quick" else (8, 4000)
    for gen in (4, 5):
        out.append({"part": "types", "gen": gen})
        out.append({"part": "subids", "gen": gen, "n": 150 if tier == "quick" else 1500})
        for k in range(reps):
            out.append({"part": "streams", "gen": gen, "n": n, "k": k})
    return out


def floors(tier: str):
    return {"unknown-type": 400, "unknown-ext-sub": 100, "unknown-c0-sub": 200, "model:error": 100, "model:clean": 100,
            "decoder-rejected": 20, "how:recomputed": 100, "how:truncate": 30,
            "how:c0-normal-section": 40, "how:echo": 100, "short-wrapper": 14, "zero-records": 6}


def run_shard(spec, seed: int, tier: str):
    stats = Stats(ID)
    gen = spec["gen"]
    if spec["part"] == "types":
        for t in range(256):
            if t in KNOWN_TYPES[gen]:
                continue
            data = bytes((t * 7 + k * 13) & 0xFF for k in range(t % 9))
            stats.guard(check_unknown, gen, t, data, 0x80 if t % 2 else 0x91, stats, "unknown-type")
        if gen == 5:
            for sub in range(256):
                if sub in KNOWN_C0:
                    continue
                normal, rlen, rcount = sub % 3, sub % 5, sub % 4
                body = bytes((sub + k) & 0xFF for k in range(normal + rlen * rcount))
                data = bytes([sub, 0]) + struct.pack(">HHH", normal, rlen, rcount) + body
                stats.guard(check_unknown, gen, 0xC0, data, 0x80, stats, "unknown-c0-sub")
        # wrapper frames too short to carry a sub-type / sub-header at all (0x1F: < 2 bytes, 0xC0: < 8 bytes)
        shorts = [(0x1F, bytes(range(0x10, 0x10 + n))) for n in range(2)] + [(0x1F, b"\xff")]
        if gen == 5:
            shorts += [(0xC0, bytes([0x21, 0, 0, 0, 0, 8, 0, 1][:n])) for n in range(8)]
        for mt, data in shorts:
            fr_ = refproto.frame(gen, 0xB0, 0x90 if mt == 0x1F else 0x80, 9, mt, data)
            stats.guard(check_stream, gen, fr_, False, 2, stats, "short-wrapper")
        if gen == 5:
            # known status sub-types announcing ZERO records of the known (or a longer) length: an empty status report,
            # not a request (a request announces length 0 and count 0)
            for sub, known in ((0x21, 8), (0x23, 10), (0x33, 9)):
                for rlen in (known, known + 2):
                    data = bytes([sub, 0]) + struct.pack(">HHH", 0, rlen, 0)
                    stats.guard(check_stream, gen, refproto.frame(gen, 0xB0, 0x80, 11, 0xC0, data), False, 2, stats, "zero-records")
        stats.exhaustive = True
        stats.samples.append({"gen": gen, "part": "all unknown type bytes" + (" and all unknown 0xC0 sub-types" if gen == 5 else "")})
    elif spec["part"] == "subids":
        near = sorted({(k + d) & 0xFFFF for k in KNOWN_EXT[gen] for d in (-1, 1, 0x100, -0x100)} - KNOWN_EXT[gen])
        strat = st.tuples(st.one_of(st.sampled_from(near), st.integers(0, 0xFFFF).filter(lambda x: x not in KNOWN_EXT[gen])),
                          st.binary(max_size=40))

        def body(c):
            sub, payload = c
            stats.guard(check_unknown, gen, 0x1F, struct.pack(">H", sub) + payload, 0x90, stats, "unknown-ext-sub")
        drive(stats, lambda s: given_test(strat, body, s, spec["n"]), seed)
    else:
        def body(c):
            def run():
                check_stream(gen, c["stream"], c["eof"], 2, stats, f"how:{c['how']}", originals=c["originals"])
            stats.guard(run)
        drive(stats, lambda s: given_test(_mutated_stream(gen), body, s, spec["n"]), seed)
    return stats.result()


def replay(case):
    try:
        if case["part"] == "unknown":
            check_unknown(case["gen"], case["mtype"], bytes.fromhex(case["data"]), case["from"], None, "")
        else:
            check_stream(case["gen"], bytes.fromhex(case["stream"]), case["eof"], case["probes"], None, "")
    except Violation as v:
        return v.as_dict()
    return None
