"""C01 - accepted commands reach the wire once each, in order, unsubstituted.

Engine: Hypothesis RuleBasedStateMachine over an open AirTouchSocket (both
registries) on the virtual loop / fake network, plus a list-driven strategy for
runs longer than the 256-value packet counter.

Rules: send batches (1..4 messages submitted in the same instant from separate
tasks before the loop turns; 10 message kinds; stock and custom retry policies;
`send` or `send_with_header` with explicit addresses/packet id), link_down (peer
EOF / reset at a quiescent instant), connection script (refuse x k, accept with
latency), advance(dt) with dt kept below the shortest remaining lifetime,
pause/resume writing.

Oracle (history invariant + model = ordered list of accepted messages):
(1) every connection's byte stream parses completely with the independent
framing (no interleaving, no partial frame); (2) the concatenation of parsed
frames over all connections equals, in order and multiplicity, a prefix of the
accepted messages - type/addresses/payload equal the independent hand encoding
of the message (pav.sockops), explicit headers equal the submitted fields - and
the whole list whenever the client is connected at a settled instant; (3) a
message accepted while connected is on the wire at its accept instant, one
accepted while down at the instant the next connection is established; (4) no
send raised; (5) no frame exists that the model did not submit.
"""

from __future__ import annotations

from hypothesis import strategies as st
from hypothesis.stateful import RuleBasedStateMachine, initialize, invariant, precondition, rule

import pyairtouch.comms.socket as sockmod

from pav import refproto, sockops
from pav.harness import Stats, Violation, drive, given_test, machine_test
from pav.rig import SockRig, make_header, registry

ID = "C01"
LEVEL = "exploration"
RULE = ("stateful (rule-based) generation of socket histories: send batches / link loss / connect scripts / clock "
        "advances below the lifetimes (and outages in which a short-lived message expires among longer-lived ones) / write pauses; plus list-generated runs of 260..600 sends across outages. "
        "Non-trivial history: >= 2 messages pending together during an outage that ended in a connection, or >= 2 "
        "tasks submitting in the same instant, or the packet counter wrapped; distinct by operation trace"
        " Also: a connection subscriber submitting from inside the up / down notification, back-pressure starting on a new connection during the flush, unencodable messages among the accepted ones, twin sockets in one process.")
ASSUMPTIONS = [
    "packet ids are not required to be sequential (only send_with_header ids are compared)",
    "no write faults, no expiry, no overflow here (C02/C16); link loss is injected at quiescent instants",
    "fake transport mirrors asyncio selector transport semantics",
]

LAT = [0.0, 0.125, 1.0, 1.5]


class Interp:
    """Executes operation lists against a real socket and checks the invariants."""

    def __init__(self, gen: int) -> None:
        self.gen = gen
        self.rig = SockRig(gen)
        self.hook = {"up": [], "down": []}   # messages a connection subscriber sends when the link comes up / goes down
        self.hook_errors: list = []
        self.rig.sock.subscribe_on_connection_changed(self._on_conn)
        self.rig.open()
        self.ops: list = [["gen", gen]]
        self.accepted: list = []  # dict(exp=(to,frm,pid|None,mtype,data), t, due, expiry)
        self.nt = set()
        self.max_pending_in_outage = 0
        self.sent_total = 0
        self.checked_frames = 0

    # ------------------------------------------------------------------ helpers
    @property
    def connected(self) -> bool:
        cur = self.rig.net.current
        return bool(self.rig.sock.is_connected and cur is not None and cur.alive)

    def case(self):
        return {"ops": self.ops}

    def bad(self, key: str, what: str):
        raise Violation(f"C01:{key}", what, self.case())

    def pending(self):
        """Messages waiting for a connection (accepted while down, no connection since, lifetime not elapsed)."""
        out = []
        for a in self.accepted:
            due, dead = self._natural_due(a)   # an unencodable message occupies a slot like any other until its turn
            if due is None and not dead:
                out.append(a)
        return out

    def min_remaining(self) -> float:
        now = self.rig.loop.time()
        rem = [a["expiry"] - now for a in self.pending()]
        return min(rem) if rem else float("inf")

    def _item(self, kind, params, pol, hdr, connected):
        """Registers one submission; returns the coroutine to await."""
        reg = registry(self.gen)
        now = self.rig.loop.time()
        policy = sockops.policy_of(pol)
        if kind == "bad":
            # a message send() accepts but that cannot be encoded when its turn comes: it is never transmitted and
            # must not hold up the messages queued behind it
            from pav.checks.c07 import bad_message
            msg, bhdr = bad_message(self.gen, params)
            coro = self.rig.sock.send(msg, policy) if bhdr is None else self.rig.sock.send_with_header(bhdr, msg, policy)
            self.accepted.append({"exp": None, "t": now, "connected": connected, "expiry": now + policy.max_lifetime,
                                  "kind": f"unencodable:{params}", "logpos": len(self.rig.net.log), "unencodable": True})
            self.nt.add("unencodable-among-accepted")
            return coro
        msg = sockops.build(self.gen, kind, params)
        mtype, data = sockops.expect(self.gen, kind, params)
        if hdr is None:
            to = 0x90 if mtype == 0x1F else 0x80
            exp = (to, 0xB0, None, mtype, data)
            coro = self.rig.sock.send(msg, policy)
        else:
            to, frm, pid = hdr
            exp = (to, frm, pid, mtype, data)
            size = reg.get_encoder(msg.message_id).size(msg)
            coro = self.rig.sock.send_with_header(make_header(self.gen, to, frm, pid, msg.message_id, size), msg, policy)
        self.accepted.append({"exp": exp, "t": now, "connected": connected, "expiry": now + policy.max_lifetime,
                              "kind": kind, "logpos": len(self.rig.net.log)})
        return coro

    async def _on_conn(self, *, connected: bool) -> None:
        """A connection subscriber that submits messages from inside the notification (as the API layers do)."""
        batch = self.hook["up" if connected else "down"]
        if not batch:
            return
        now = self.rig.loop.time()
        if connected:
            # the backlog accepted during the outage is still held at this point (flushed after the notification)
            held = sum(1 for a in self.accepted if not a["connected"] and self._natural_due(a) == (now, False))
        else:
            held = len(self.pending())
        for kind, params, pol, hdr in batch[:max(0, 10 - held)]:
            self.nt.add("sent-from-connection-subscriber:" + ("up" if connected else "down"))
            try:
                await self._item(kind, params, pol, hdr, connected)
            except Exception as exc:  # noqa: BLE001 - reported by check()
                self.hook_errors.append(repr(exc))

    # ------------------------------------------------------------------ operations
    def do(self, op):
        self.ops.append(op)
        name = op[0]
        getattr(self, "op_" + name)(*op[1:])
        self.check()

    def op_send(self, batch):
        """batch: list of [kind, params, policy, hdr] ; hdr None | [to, frm, pid]"""
        loop = self.rig.loop
        was_connected = self.connected
        tasks = []
        for kind, params, pol, hdr in batch:
            coro = self._item(kind, params, pol, hdr, was_connected)
            tasks.append((loop.spawn(coro), self.accepted[-1]))
        if len(batch) >= 2:
            self.nt.add("same-instant-batch")
        loop.settle()
        for t, entry in tasks:
            if not t.done():
                if self.rig.net.current is not None and self.rig.net.current.write_paused:
                    continue  # blocked in drain() by a paused writer: legitimate
                self.bad("send-pending", "send() neither returned nor raised at a settled instant")
            if t.done() and not t.cancelled() and t.exception() is not None:
                if entry.get("unencodable") and not isinstance(t.exception(), sockmod.QueueOverflowError):
                    self.accepted.remove(entry)   # refused at submission: not accepted, nothing is held for it
                    continue
                self.bad("send-raised", f"send raised {t.exception()!r}")
        self.sent_total += len(batch)
        if self.sent_total > 256:
            self.nt.add("wrap-256")
        if not was_connected:
            np = len(self.pending())
            self.max_pending_in_outage = max(self.max_pending_in_outage, np)

    def op_down(self, how):
        cur = self.rig.net.current
        if cur is None or not cur.alive:
            return
        if cur.write_paused:
            cur.resume_writing()
            self.rig.loop.settle()
        (cur.peer_eof if how == "eof" else cur.peer_reset)()
        self.rig.loop.settle()

    def op_script(self, entries):
        for kind, lat in entries:
            self.rig.net.script.append((kind, lat))

    def op_advance(self, dt):
        self.rig.loop.advance(dt)

    def op_advance_free(self, dt):
        """Advance without regard to lifetimes (pending messages may expire)."""
        self.rig.loop.advance(dt)

    def op_pause(self):
        cur = self.rig.net.current
        if cur is not None and cur.alive:
            cur.pause_writing()

    def op_resume(self):
        cur = self.rig.net.current
        if cur is not None:
            cur.resume_writing()
        self.rig.loop.settle()

    def op_gen(self, gen):  # replay marker
        pass

    def op_backpressure(self, n):
        """The next connection stops taking data after its n-th write (the console has stopped reading)."""
        self.rig.net.pause_on_accept.clear()
        if n:
            self.rig.net.pause_on_accept.append(n)
        else:
            for tr in self.rig.net.conns:
                tr.pause_after = None
            cur = self.rig.net.current
            if cur is not None and cur.write_paused:
                cur.resume_writing()
            self.rig.loop.settle()

    def op_hook(self, up, down):
        self.hook = {"up": up, "down": down}

    # ------------------------------------------------------------------ oracle
    def due_of(self, a):
        """(due instant | None, dead).  A message accepted while the link was down is due at the instant the next
        connection is established; if its lifetime has elapsed by then it is dead (it must never be transmitted)."""
        if a.get("unencodable"):
            return None, True     # never transmitted
        return self._natural_due(a)

    def _natural_due(self, a):
        if a["connected"]:
            return a["t"], False
        later = [e[0] for e in self.rig.net.log[a["logpos"]:] if e[1] == "open"]
        if later:
            return later[0], later[0] >= a["expiry"]
        return None, self.rig.loop.time() >= a["expiry"]

    def _paused_throughout(self, cid, t0, t1) -> bool:
        start = None
        for e in self.rig.net.log:
            if e[1] == "pause" and e[2] == cid:
                start = e[0]
            elif e[1] == "resume" and e[2] == cid and start is not None:
                if start <= t0 and t1 <= e[0]:
                    return True
                start = None
        return start is not None and start <= t0

    def check(self):
        net = self.rig.net
        if self.hook_errors:
            self.bad("send-raised", f"send from a connection subscriber raised {self.hook_errors[0]}")
        frames = []  # (frame, t_first_byte, cid)
        for tr in net.conns:
            wire = tr.tx_bytes()
            pr = refproto.parse_stream(self.gen, wire)
            if pr.error or pr.incomplete or pr.consumed != len(wire):
                self.bad("stream-not-frames", f"connection {tr.cid}: bytes do not parse as whole frames "
                                              f"(error={pr.error}, incomplete={pr.incomplete}): {wire.hex()[:200]}")
            offs = []
            pos = 0
            for t, b in tr.writes:
                offs.append((pos, t))
                pos += len(b)
            k = 0
            for fr in pr.frames:
                while k + 1 < len(offs) and offs[k + 1][0] <= fr.start:
                    k += 1
                frames.append((fr, offs[k][1], tr.cid))
        live = []
        n_dead = 0
        for idx, a in enumerate(self.accepted):
            due, dead = self.due_of(a)
            if dead:
                n_dead += 1
                continue
            live.append((idx, a, due))
        if n_dead:
            self.nt.add("expired-among-pending")
        if len(frames) > len(live):
            extra = frames[len(live)][0]
            self.bad("extra-frame", f"{len(frames)} frames on the wire for {len(live)} accepted messages that were alive when "
                                    f"a connection existed; first extra: type={extra.mtype:#x} data={extra.data.hex()}")
        for i, (fr, t_tx, cid) in enumerate(frames):
            idx, a, due = live[i]
            to, frm, pid, mtype, data = a["exp"]
            got = (fr.to, fr.frm, fr.mtype, fr.data)
            if got != (to, frm, mtype, data):
                self.bad("duplicate-or-substituted", f"frame #{i} on the wire is to={fr.to:#x} from={fr.frm:#x} type={fr.mtype:#x} "
                                                     f"data={fr.data.hex()} but the next accepted message still alive (#{idx}, {a['kind']}) "
                                                     f"is to={to:#x} from={frm:#x} type={mtype:#x} data={data.hex()}")
            if pid is not None and fr.pid != pid:
                self.bad("header-pid", f"frame #{i}: packet id {fr.pid} != submitted {pid}")
            if due is not None and t_tx > due and self._paused_throughout(cid, due, t_tx):
                continue  # the console exerted back-pressure from the instant the message was due until it was written
            if due is None or t_tx != due:
                self.bad("late-or-early", f"message #{idx} accepted at t={a['t']} (connected={a['connected']}) was "
                                          f"written at t={t_tx}, expected at t={due}")
        if frames and self.checked_frames < len(frames):
            newly = [a for _i, a, _d in live[self.checked_frames:len(frames)]]
            if sum(1 for a in newly if not a["connected"]) >= 2:
                self.nt.add("multi-pending-outage")
        self.checked_frames = len(frames)
        if self.connected and not (net.current and net.current.write_paused):
            if len(frames) != len(live):
                idx, a, _d = live[len(frames)]
                self.bad("lost", f"client is connected at a settled instant but accepted message #{idx} "
                                 f"({a['kind']}, accepted t={a['t']}, lifetime until t={a['expiry']}) is not on the wire "
                                 f"({len(frames)}/{len(live)})")
        if net.max_open > 1:
            self.bad("two-connections", "more than one connection open at once")

    def finish(self):
        """End of history: let the network behave and require delivery of what is still alive."""
        net = self.rig.net
        net.heal()
        self.rig.loop.settle()
        waited = 0.0
        while not self.connected and waited < 8.0 and self.min_remaining() > 0.5:
            self.ops.append(["advance", 0.5])
            self.rig.loop.advance(0.5)
            waited += 0.5
            self.check()
        if not self.connected and waited >= 8.0:
            self.bad("no-connection", "network behaves for 8 s yet the client is not connected")
        self.check()

    def dispose(self):
        self.rig.dispose()


# ---------------------------------------------------------------------- machine

_hdr = st.one_of(st.none(), st.none(),
                 st.tuples(st.sampled_from([0x80, 0x90, 0x12]), st.sampled_from([0xB0, 0xB1]), st.integers(0, 255)).map(list))


def _send_item(gen):
    good = st.tuples(sockops.kind_and_params(gen), sockops.policy_strategy((2.0, 30.0, 60.0)), _hdr).map(
        lambda t: [t[0][0], t[0][1], t[1], t[2]])
    bad = st.sampled_from(["struct", "value", "notimpl"]).map(lambda v: ["bad", v, "idem", None])
    return st.one_of(good, good, good, good, good, good, good, bad)


def make_machine(gen: int, stats: Stats):
    class Machine(RuleBasedStateMachine):
        def __init__(self):
            super().__init__()
            self.x = Interp(gen)
            self.dead = False

        def _do(self, op):
            if self.dead or stats.bail:
                return
            if op[0] == "advance" and op[1] >= self.x.min_remaining():
                op = ["advance", self.x.min_remaining() / 2]
            try:
                self.x.do(op)
            except Violation as v:
                self.dead = True
                if stats.filter(v):
                    raise

        @rule(batch=st.lists(_send_item(gen), min_size=1, max_size=4))
        def send(self, batch):
            if len(self.x.pending()) + len(batch) > 10:
                batch = batch[: max(0, 10 - len(self.x.pending()))]
            if batch:
                self._do(["send", batch])

        @rule(how=st.sampled_from(["eof", "reset"]),
              script=st.lists(st.tuples(st.sampled_from(["refuse", "refuse", "accept", "timeout", "unreachable"]), st.sampled_from(LAT)).map(list),
                              min_size=0, max_size=3))
        def link_down(self, how, script):
            if script:
                self._do(["script", script])
            self._do(["down", how])

        @rule(dt=st.sampled_from([0.0, 0.125, 0.5, 1.0, 1.875, 2.0, 2.125, 4.0, 6.5]))
        def advance(self, dt):
            rem = self.x.min_remaining()
            if dt >= rem:
                dt = rem / 2
            self._do(["advance", dt])

        @rule(how=st.sampled_from(["eof", "reset"]), k=st.integers(0, 2), lat=st.sampled_from(LAT),
              batch1=st.lists(_send_item(gen), min_size=1, max_size=3), batch2=st.lists(_send_item(gen), min_size=1, max_size=3),
              gap=st.sampled_from([0.0, 0.125, 1.0]))
        def outage_with_pending(self, how, k, lat, batch1, batch2, gap):
            """Link loss, k refusals, then an accept with latency; messages with long lifetimes
            are submitted while the link is down (two batches `gap` apart)."""
            long_lived = lambda b: [[kk, p, ("idem" if isinstance(pol, str) else [pol[0], 30.0]), h] for kk, p, pol, h in b]
            self._do(["script", [["refuse", 0.0]] * k + [["accept", lat]]])
            self._do(["down", how])
            for b in (long_lived(batch1), long_lived(batch2)):
                room = 10 - len(self.x.pending())
                if room > 0 and not self.x.connected:
                    self._do(["send", b[:room]])
                    self._do(["advance", gap])
            self._do(["advance", 2.0 * k + lat + 0.125])

        @rule(how=st.sampled_from(["eof", "reset"]), first=_send_item(gen), second=_send_item(gen), third=_send_item(gen),
              order=st.integers(0, 5))
        def outage_with_expiry(self, how, first, second, third, order):
            """Link down; a long-lived, a short-lived and another long-lived message are accepted (any order); the clock
            passes the short lifetime only; a further send; then the connection comes up."""
            items = [[first[0], first[1], [first[2][0] if isinstance(first[2], list) else 1, 30.0], first[3]],
                     [second[0], second[1], [0, 1.0], second[3]],
                     [third[0], third[1], "idem", third[3]]]
            perm = [[0, 1, 2], [0, 2, 1], [1, 0, 2], [1, 2, 0], [2, 0, 1], [2, 1, 0]][order]
            self._do(["script", [["refuse", 0.0], ["refuse", 0.0], ["accept", 0.0]]])
            self._do(["down", how])
            if self.x.connected:
                return
            room = 10 - len(self.x.pending())
            batch = [items[k] for k in perm][:max(0, room)]
            for it in batch[:2]:
                self._do(["send", [it]])
            self._do(["advance_free", 1.5])
            for it in batch[2:]:
                self._do(["send", [it]])
            self._do(["advance_free", 3.0])

        @rule(how=st.sampled_from(["eof", "reset"]), n=st.integers(1, 9), lat=st.sampled_from([0.0, 0.125]),
              batch1=st.lists(_send_item(gen), min_size=2, max_size=6), batch2=st.lists(_send_item(gen), min_size=1, max_size=3),
              batch3=st.lists(_send_item(gen), min_size=0, max_size=2))
        def outage_then_backpressure(self, how, n, lat, batch1, batch2, batch3):
            """Link loss; messages pile up; the new connection takes n writes and then exerts back-pressure, so the
            flush of the backlog is suspended in drain(); further sends arrive from other tasks meanwhile; then the
            console reads again."""
            long_lived = lambda b: [[kk, p, ("idem" if isinstance(pol, str) else [pol[0], 30.0]), h] for kk, p, pol, h in b]
            now = self.x.rig.loop.time()
            if self.dead or self.x.rig.net.script or any(a["expiry"] < now + 20.0 for a in self.x.pending()):
                # only long-lived messages may wait behind the back-pressure (a message that expires while the flush is
                # suspended may legitimately be dropped: not what this rule is about)
                return
            self._do(["backpressure", n])
            self._do(["script", [["accept", lat]]])
            self._do(["down", how])
            if self.x.connected:
                self._do(["backpressure", 0])
                return
            room = 10 - len(self.x.pending())
            if room > 0:
                self._do(["send", long_lived(batch1)[:room]])
            self._do(["advance", lat + 0.125])
            cur = self.x.rig.net.current
            if cur is not None and cur.write_paused:
                self.x.nt.add("flush-suspended-by-backpressure")
                self._do(["send", long_lived(batch2)])
                if batch3:
                    self._do(["send", long_lived(batch3)])
            self._do(["resume"])
            self._do(["backpressure", 0])

        @rule(up=st.lists(_send_item(gen), max_size=2), down=st.lists(_send_item(gen), max_size=3))
        def connection_subscriber(self, up, down):
            """From now on a connection subscriber submits `up` whenever the link comes up and `down` (long-lived)
            whenever it goes down."""
            down = [[kk, p, ("idem" if isinstance(pol, str) else [pol[0], 30.0]), h] for kk, p, pol, h in down]
            self._do(["hook", up, down])

        @rule()
        def pause(self):
            self._do(["pause"])

        @rule()
        def resume(self):
            self._do(["resume"])

        def teardown(self):
            try:
                if self.dead:
                    return
                self.dead = True
                stats.guard(self.x.finish)
                nt = bool(self.x.nt)
                stats.case(self.x.ops, nt, classes=sorted(self.x.nt) + [f"gen{gen}"],
                           sample={"gen": gen, "ops": self.x.ops[:12], "n_ops": len(self.x.ops),
                                   "accepted": len(self.x.accepted), "connections": len(self.x.rig.net.conns)})
            finally:
                self.x.dispose()

    return Machine


# ---------------------------------------------------------------------- wrap runs (list driven)


def _wrap_ops(gen):
    # factory-assigned packet ids only (no explicit headers): the header factory's counter must pass 255 -> 0 at least once
    burst = st.lists(_send_item(gen), min_size=8, max_size=10).map(
        lambda b: ["send", [[k, p, "idem", None] for k, p, _pol, _h in b if k != "bad"] or [["ac_req", [], "idem", None]]])
    outage = st.tuples(st.sampled_from(["eof", "reset"]), st.integers(0, 2)).map(
        lambda t: [["script", [["refuse", 0.0]] * t[1]], ["down", t[0]], ["advance", 2.0 * t[1] + 0.5]])
    block = st.one_of(burst.map(lambda b: [b]), burst.map(lambda b: [b]), outage,
                      st.tuples(outage, burst).map(lambda t: t[0][:2] + [t[1]] + t[0][2:]))
    return st.lists(block, min_size=60, max_size=90).map(lambda bl: [op for b in bl for op in b])


def run_ops(gen: int, ops, stats: Stats | None):
    x = Interp(gen)
    try:
        for op in ops:
            if op[0] == "gen":
                continue
            if op[0] == "send" and len(x.pending()) + len(op[1]) > 10:
                continue
            if op[0] == "advance" and op[1] >= x.min_remaining():
                op = ["advance", x.min_remaining() / 2]
            x.do(op)
        x.finish()
        if stats is not None:
            stats.case(x.ops, bool(x.nt), classes=sorted(x.nt) + [f"gen{gen}", "wrap-run"],
                       sample={"gen": gen, "n_ops": len(x.ops), "accepted": len(x.accepted),
                               "connections": len(x.rig.net.conns), "ops_head": x.ops[:6]})
    finally:
        x.dispose()


def _twin_ops(gen):
    """Short op lists for two sockets that live in one process (see run_twin)."""
    burst = st.lists(_send_item(gen), min_size=1, max_size=4).map(lambda b: [["send", [[k, p, ("idem" if isinstance(pol, str) else [pol[0], 30.0]), h]
                                                                                       for k, p, pol, h in b]]])
    outage = st.tuples(st.sampled_from(["eof", "reset"]), st.integers(1, 3), st.lists(_send_item(gen), min_size=1, max_size=4)).map(
        lambda t: [["script", [["refuse", 0.0]] * t[1]], ["down", t[0]],
                   ["send", [[k, p, ("idem" if isinstance(pol, str) else [pol[0], 30.0]), h] for k, p, pol, h in t[2]]],
                   ["advance", 1.0], ["advance", 2.0 * t[1]]])
    pause = st.sampled_from([[["advance", 0.0]], [["advance", 0.5]], [["advance", 2.0]]])
    return st.lists(st.one_of(burst, burst, outage, pause), min_size=3, max_size=12).map(lambda bl: [op for b in bl for op in b])


def run_twin(gen: int, ops_a, ops_b, stats: Stats | None):
    """Two sockets of the same generation in one process, each with its own console, driven alternately: what is
    accepted by one socket reaches that socket's console only (nothing may be shared through class attributes or module
    globals - registries and header factories are singletons by design, queues and connections are not)."""
    from pav import fakenet
    xs = [Interp(gen), Interp(gen)]
    try:
        for i in range(max(len(ops_a), len(ops_b))):
            for x, ops in zip(xs, (ops_a, ops_b)):
                if i >= len(ops):
                    continue
                op = ops[i]
                fakenet._CURRENT[0] = x.rig.net
                if op[0] == "send" and len(x.pending()) + len(op[1]) > 10:
                    continue
                if op[0] == "advance" and op[1] >= x.min_remaining():
                    op = ["advance", x.min_remaining() / 2]
                try:
                    x.do(op)
                except Violation as v:
                    v.case = {"twin": [ops_a, ops_b], "gen": gen}
                    v.what = f"two sockets in one process (socket {xs.index(x)}): " + v.what
                    raise
        for x in xs:
            fakenet._CURRENT[0] = x.rig.net
            try:
                x.finish()
            except Violation as v:
                v.case = {"twin": [ops_a, ops_b], "gen": gen}
                v.what = f"two sockets in one process (socket {xs.index(x)}): " + v.what
                raise
        if stats is not None:
            stats.case([ops_a, ops_b], True, classes=["twin-sockets", f"gen{gen}"],
                       sample={"gen": gen, "ops": [len(ops_a), len(ops_b)], "accepted": [len(x.accepted) for x in xs]})
    finally:
        for x in xs:
            x.dispose()


def shards(tier: str):
    out = []
    for gen in (4, 5):
        out.append({"part": "twin", "gen": gen, "n": 60 if tier == "quick" else 400})
    if tier == "quick":
        for gen in (4, 5):
            for k in range(6):
                out.append({"part": "machine", "gen": gen, "n": 120, "steps": 40, "k": k})
            out.append({"part": "wrap", "gen": gen, "n": 2})
            out.append({"part": "wrap", "gen": gen, "n": 2, "k": 1})
    else:
        for gen in (4, 5):
            for k in range(24):
                out.append({"part": "machine", "gen": gen, "n": 250, "steps": 80, "k": k})
            for k in range(6):
                out.append({"part": "wrap", "gen": gen, "n": 10, "k": k})
    return out


def floors(tier: str):
    return {"multi-pending-outage": 30, "same-instant-batch": 60, "wrap-256": 2, "expired-among-pending": 30,
            "sent-from-connection-subscriber:up": 40, "sent-from-connection-subscriber:down": 40,
            "flush-suspended-by-backpressure": 40, "unencodable-among-accepted": 100, "twin-sockets": 80}


def run_shard(spec, seed: int, tier: str):
    stats = Stats(ID)
    gen = spec["gen"]
    if spec["part"] == "twin":
        strat = st.tuples(_twin_ops(gen), _twin_ops(gen))
        drive(stats, lambda s: given_test(strat, lambda c: stats.guard(run_twin, gen, c[0], c[1], stats), s, spec["n"]), seed)
    elif spec["part"] == "machine":
        drive(stats, lambda s: machine_test(make_machine(gen, stats), s, spec["n"], spec["steps"]), seed)
    else:
        # long runs: not shrunk (every replay of a 500-send history costs seconds; the unshrunk history is the replay file)
        drive(stats, lambda s: given_test(_wrap_ops(gen), lambda ops: stats.guard(run_ops, gen, ops, stats), s, spec["n"], shrink=False), seed)
    return stats.result()


def replay(case):
    if "twin" in case:
        try:
            run_twin(case["gen"], case["twin"][0], case["twin"][1], None)
        except Violation as v:
            return v.as_dict()
        return None
    ops = case["ops"]
    gen = ops[0][1]
    x = Interp(gen)
    try:
        for op in ops[1:]:
            x.do(op)
        x.finish()
    except Violation as v:
        return v.as_dict()
    finally:
        x.dispose()
    return None
