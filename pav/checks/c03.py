"""C03 - every message frames and parses back identically, lengths agree.

Generated: for each of the 36 message/request classes (pav.gens) triples of
messages of one generation; each is submitted on a connected socket A with
`send()` or with `send_with_header()` (explicit packet id 0..255, both address
directions).  Oracle: (1) the bytes A wrote parse completely with the independent
framing (pav.refproto): prefixes, AT5 outer lengths 10+data+2 twice, declared
data length = number of payload bytes = `size()` obtained through the public
registry, nested lengths (0x1F: 2 + sub size; 0xC0: 8 + normal + repeat x count,
equal to the sub-encoder's public non_repeat_size/repeat_size/repeat_count),
CRC = bit-serial CRC-16/MODBUS; (2) the three frames, concatenated in one
segment, are fed into the receive path of a second socket B: its subscriber must
be called exactly three times with header == the header fields A used and
message == the submitted dataclass, connection undisturbed.
"""

from __future__ import annotations

import struct

from hypothesis import strategies as st

import pyairtouch.at4.comms.hdr as hdr4
import pyairtouch.at5.comms.hdr as hdr5
import pyairtouch.comms.socket as sockmod

from pav import gens, refproto, ser
from pav.harness import Stats, Violation, drive, given_test
from pav.rig import SockRig, registry

ID = "C03"
LEVEL = "exploration"
RULE = ("Hypothesis @given per message class (36 classes, pav/gens.py, fields over their protocol domains); a case is "
        "three messages of one class sent through the real send path and read back through the real receive path; "
        "non-trivial = some message has >= 2 records, or a non-ASCII string, or a non-empty variable-length part, "
        "or an explicit header; distinct by the bytes written."
        " Every second case runs against a slow peer: the transport keeps the objects it was given by reference until they are "
        "flushed (as a selector transport does), so a frame buffer that is re-used for the next frame shows on the wire.")
ASSUMPTIONS = [
    "fake transport mirrors asyncio selector transport semantics (pav/fakenet.py)",
    "values outside the protocol domain (over-long names, AT4 timer messages naming a subset of ACs, versions=[]) are not generated",
]

SUB_ENCODERS = {}


def _sub_encoder(gen: int, kind: str):
    import pyairtouch.at4.comms.x1FFF10_err_info as err4
    import pyairtouch.at4.comms.x1FFF11_ac_ability as ab4
    import pyairtouch.at4.comms.x1FFF12_group_names as gn4
    import pyairtouch.at4.comms.x1FFF20_quick_timer as qt4
    import pyairtouch.at4.comms.x1FFF30_console_ver as cv4
    import pyairtouch.at5.comms.x1FFF10_err_info as err5
    import pyairtouch.at5.comms.x1FFF11_ac_ability as ab5
    import pyairtouch.at5.comms.x1FFF13_zone_names as zn5
    import pyairtouch.at5.comms.x1FFF30_console_ver as cv5
    import pyairtouch.at5.comms.x1FFF49_quick_timer as qt5
    import pyairtouch.at5.comms.xC020_zone_ctrl as zc5
    import pyairtouch.at5.comms.xC021_zone_status as zs5
    import pyairtouch.at5.comms.xC022_ac_ctrl as ac5
    import pyairtouch.at5.comms.xC023_ac_status as as5
    import pyairtouch.at5.comms.xC032_ac_timer_ctrl as tc5
    import pyairtouch.at5.comms.xC033_ac_timer_status as ts5
    if not SUB_ENCODERS:
        SUB_ENCODERS.update({
            (4, "ext_err"): err4.AcErrorInformationEncoder(), (4, "ext_ability"): ab4.AcAbilityEncoder(),
            (4, "ext_names"): gn4.GroupNamesEncoder(), (4, "ext_quick"): qt4.QuickTimerEncoder(),
            (4, "ext_version"): cv4.ConsoleVersionEncoder(),
            (5, "ext_err"): err5.AcErrorInformationEncoder(), (5, "ext_ability"): ab5.AcAbilityEncoder(),
            (5, "ext_names"): zn5.ZoneNamesEncoder(), (5, "ext_quick"): qt5.QuickTimerEncoder(),
            (5, "ext_version"): cv5.ConsoleVersionEncoder(),
            (5, "zone_control"): zc5.ZoneControlEncoder(), (5, "zone_status"): zs5.ZoneStatusEncoder(),
            (5, "ac_control"): ac5.AcControlEncoder(), (5, "ac_status"): as5.AcStatusEncoder(),
            (5, "timer_control"): tc5.AcTimerControlEncoder(), (5, "timer_status"): ts5.AcTimerStatusEncoder(),
        })
    if kind.startswith("ext_"):
        base = "_".join(kind.split("_")[:2])
        return SUB_ENCODERS[(gen, base)]
    if gen == 5:
        base = kind[:-4] if kind.endswith("_req") else kind
        return SUB_ENCODERS[(5, base)]
    return None


def shards(tier: str):
    out = []
    reps = 1 if tier == "quick" else 4
    for gen in (4, 5):
        for kind in gens.KINDS[gen]:
            for r in range(reps):
                out.append({"gen": gen, "kind": kind, "n": 150 if tier == "quick" else 1300, "rep": r})
    return out


def floors(tier: str):
    need = 50 if tier == "quick" else 2000
    f = {f"kind:{g}:{k}": need for g in (4, 5) for k in gens.KINDS[g]}
    f["payload-over-255-bytes"] = 40
    f["queued-then-flushed"] = 1000
    f["slow-peer-holds-references"] = 1000
    return f


def _case_strategy(gen: int, kind: str):
    msg = gens.KINDS[gen][kind][0]
    hdr = st.one_of(
        st.none(),
        st.tuples(st.sampled_from([(0x80, 0xB0), (0x90, 0xB0), (0xB0, 0x80), (0xB0, 0x90), (0xB0, 0x91), (0x12, 0x34)]),
                  st.integers(0, 255)))
    return st.tuples(st.lists(st.tuples(msg, hdr), min_size=3, max_size=3), st.integers(0, 255), st.sampled_from([False, False, True]))


def _nontrivial(messages, hdrs) -> bool:
    for m in messages:
        j = repr(m)
        if any(ord(c) > 127 for c in j):
            return True
    return any(h is not None for h in hdrs)


def _mk_header(gen: int, to: int, frm: int, pid: int, mid: int, length: int):
    cls = hdr4.At4Header if gen == 4 else hdr5.At5Header
    return cls(to_address=to, from_address=frm, packet_id=pid, message_id=mid, message_length=length)


def check_case(gen: int, kind: str, items, pid0: int, stats: Stats | None = None, queued: bool = False):
    """items: list of (message, None | ((to, frm), pid)).  Raises Violation.
    queued: the three messages are submitted while the link is still down (first attempt refused) and go out together
    when the retry connects - all of them have been sized before the first one is encoded."""
    reg = registry(gen)
    case = {"gen": gen, "kind": kind, "pid0": pid0, "queued": queued,
            "items": [[ser.to_json(m), None if h is None else [list(h[0]), h[1]]] for m, h in items]}

    def bad(key, what):
        raise Violation(f"C03:{key}:{gen}:{kind}", what, case)

    a = SockRig(gen)
    try:
        # every second case: a peer that takes the bytes late, so that the transport still holds the objects it was given
        # when the next frame is built (a selector transport buffers references, not copies)
        a.net.slow_peer = slow = (pid0 % 2 == 1)
        if queued:
            a.net.script.append(("refuse", 0.0))
        a.open()
        if not a.sock.is_connected and not queued:
            bad("harness", "socket A not connected")
        reg.header_factory._next_packet_id = pid0
        expected_hdr = []
        sizes = []
        for k, (m, h) in enumerate(items):
            try:
                size = reg.get_encoder(m.message_id).size(m)
            except Exception as exc:  # noqa: BLE001 - the public size() of an in-domain message must work
                bad("size-raised", f"size() of in-domain message #{k} raised {exc!r}")
            sizes.append(size)
            if h is None:
                exp_pid = (pid0 + sum(1 for (_, hh) in items[:k] if hh is None)) % 256
                to = 0x90 if m.message_id == 0x1F else 0x80
                expected_hdr.append((to, 0xB0, exp_pid, m.message_id, size))
                r = a.send(m, sockmod.RETRY_IDEMPOTENT)
            else:
                (to, frm), pid = h
                expected_hdr.append((to, frm, pid, m.message_id, size))
                r = a.send_with_header(_mk_header(gen, to, frm, pid, m.message_id, size), m, sockmod.RETRY_IDEMPOTENT)
            if r[0] != "ok":
                bad("send-raised", f"send of in-domain message #{k} did not return normally: {r!r}")
        if queued:
            a.loop.advance(2.5)
        if len(a.net.conns) != 1 or not a.net.conns[0].alive:
            bad("send-disturbed", "sending disturbed the connection" if not queued else
                "the messages accepted while the link was down did not go out on one healthy connection")
        wire = a.net.conns[0].tx_bytes()
    finally:
        a.dispose()

    pr = refproto.parse_stream(gen, wire)
    if pr.error or pr.incomplete or pr.consumed != len(wire) or len(pr.frames) != len(items):
        bad("framing", f"bytes written do not parse as {len(items)} frames: error={pr.error} incomplete={pr.incomplete} "
                       f"frames={len(pr.frames)} consumed={pr.consumed}/{len(wire)} wire={wire.hex()}")
    sub_enc = _sub_encoder(gen, kind)
    for k, (fr, (m, _h)) in enumerate(zip(pr.frames, items)):
        to, frm, pid, mid, size = expected_hdr[k]
        if (fr.to, fr.frm, fr.pid, fr.mtype) != (to, frm, pid, mid):
            bad("header-fields", f"frame #{k} header {(fr.to, fr.frm, fr.pid, fr.mtype)} != submitted {(to, frm, pid, mid)}")
        if len(fr.data) != size:
            bad("size", f"frame #{k}: size()={size} but {len(fr.data)} payload bytes declared/written")
        if mid == 0x1F:
            sub = m.sub_message
            ss = sub_enc.size(sub)
            if len(fr.data) != 2 + ss:
                bad("nested-size", f"frame #{k}: extended payload {len(fr.data)} != 2 + sub size {ss}")
            if struct.unpack(">H", fr.data[:2])[0] != sub.message_id:
                bad("sub-id", f"frame #{k}: sub id bytes {fr.data[:2].hex()} != {sub.message_id:04x}")
        elif mid == 0xC0:
            sub = m.sub_message
            sid, zero, normal, rlen, rcount = struct.unpack(">BBHHH", fr.data[:8])
            if len(fr.data) != 8 + normal + rlen * rcount:
                bad("nested-size", f"frame #{k}: 0xC0 payload {len(fr.data)} != 8+{normal}+{rlen}*{rcount}")
            pub = (sub_enc.non_repeat_size(sub), sub_enc.repeat_size(sub), sub_enc.repeat_count(sub))
            if (normal, rlen, rcount) != pub:
                bad("nested-size", f"frame #{k}: sub header {(normal, rlen, rcount)} != encoder's {pub}")
            if sid != sub.message_id or zero != 0:
                bad("sub-id", f"frame #{k}: sub type {sid:#x}/{zero} != {sub.message_id:#x}/0")

    b = SockRig(gen)
    try:
        b.open()
        tr = b.net.conns[0]
        tr.feed(wire)
        b.loop.settle()
        if len(b.net.conns) != 1 or not tr.alive or not b.sock.is_connected:
            bad("rx-disturbed", f"receiving the frames disturbed the connection (events {b.net.log[-4:]})")
        if len(b.received) != len(items):
            bad("rx-count", f"subscriber called {len(b.received)} times for {len(items)} frames")
        for k, ((_, hdr, msg), (m, _h)) in enumerate(zip(b.received, items)):
            got = (hdr.to_address, hdr.from_address, hdr.packet_id, hdr.message_id, hdr.message_length)
            if got != expected_hdr[k]:
                bad("rx-header", f"frame #{k}: received header {got} != sent {expected_hdr[k]}")
            if msg != m or type(msg) is not type(m):
                bad("rx-message", f"frame #{k}: received {ser.brief(msg)} != sent {ser.brief(m)}")
    finally:
        b.dispose()
    if stats is not None:
        hdrs = [h for _, h in items]
        nt = _nontrivial([m for m, _ in items], hdrs) or len(wire) > 3 * (refproto.header_len(gen) + 2) + 3 * 12
        big = ["payload-over-255-bytes"] if any(len(fr.data) > 255 for fr in pr.frames) else []
        stats.case(wire.hex() + ("q" if queued else ""), nt,
                   classes=[f"kind:{gen}:{kind}", "explicit-header" if any(hdrs) else "factory-header"] + big + (["queued-then-flushed"] if queued else [])
                   + (["slow-peer-holds-references"] if slow else []),
                   sample={"gen": gen, "kind": kind, "wire": wire.hex()[:400],
                           "messages": [ser.brief(m, 200) for m, _ in items]})


def run_shard(spec, seed: int, tier: str):
    stats = Stats(ID)
    gen, kind = spec["gen"], spec["kind"]

    def body(case):
        items, pid0, queued = case
        stats.guard(check_case, gen, kind, items, pid0, stats, queued)

    drive(stats, lambda s: given_test(_case_strategy(gen, kind), body, s, spec["n"]), seed + spec["rep"])
    return stats.result()


def replay(case):
    items = [(ser.from_json(m), None if h is None else ((h[0][0], h[0][1]), h[1])) for m, h in case["items"]]
    try:
        check_case(case["gen"], case["kind"], items, case["pid0"], None, bool(case.get("queued")))
    except Violation as v:
        return v.as_dict()
    return None
