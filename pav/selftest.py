"""./check selftest - self tests of the trusted base (reference codec, virtual loop, fake network)."""

from __future__ import annotations

import asyncio


def _loop_and_net() -> list:
    from pav import fakenet
    from pav.vloop import new_loop
    errs = []
    fakenet.install()
    loop = new_loop()
    net = fakenet.FakeNet(loop)
    got = []

    async def client():
        r, w = await asyncio.open_connection(host="h", port=1)
        w.write(b"ping")
        await w.drain()
        got.append(await r.readexactly(4))
        await asyncio.sleep(300.125)
        got.append(loop.time())
        net.conns[0].fail_write(1)
        w.write(b"x")
        try:
            await w.drain()
            got.append("no-error")
        except OSError as e:
            got.append("ConnectionResetError" if isinstance(e, ConnectionResetError) else type(e).__name__)
        w.close()
        await w.wait_closed() if False else None

    net.on_data = lambda tr, b: tr.feed(b"pong") if b == b"ping" else None
    t = loop.spawn(client())
    loop.advance(1000.0)
    if not t.done() or t.exception():
        errs.append(f"echo client did not finish: {t!r}")
    if got[:3] != [b"pong", 300.125, "ConnectionResetError"]:
        errs.append(f"unexpected trace {got}")
    if loop.time() != 1000.0:
        errs.append("virtual clock not exact")
    if net.open_conns:
        errs.append("connection left open")
    loop.dispose()
    return errs


def main() -> int:
    from pav import refcodec, refproto
    errs = []
    errs += [f"refproto: {e}" for e in refproto.selftest()]
    errs += [f"refcodec: {e}" for e in refcodec.selftest()]
    errs += [f"vloop/fakenet: {e}" for e in _loop_and_net()]
    if errs:
        print("HARNESS-ERROR selftest failed:")
        for e in errs:
            print("  ", e)
        return 2
    print("selftest: OK (reference framing reproduces 22 vendor example frames + the recorded AT5 frame; reference codec reads / "
          "writes back every worked example; virtual loop and fake network behave)")
    return 0
