"""Views of pyairtouch decode results as plain dictionaries in the vocabulary of
pav.refcodec (enum members are read by *name* only; no table or constant of the
library is consulted to decide what is correct)."""

from __future__ import annotations

_AC_POWER = {"OFF": "off", "ON": "on", "OFF_AWAY": "away_off", "ON_AWAY": "away_on", "SLEEP": "sleep"}


def _fan(name: str) -> str:
    n = name.lower()
    return n.replace("intelligent_auto_", "ia_")


def _support(mapping) -> set:
    return {k.name.lower() for k, v in mapping.items() if v and k.name != "UNCHANGED"}


def _timer(t):
    return {"disabled": t.disabled, "hour": t.hour, "minute": t.minute}


def group_status4(m):
    return [{
        "number": g.group_number, "power": g.power_state.name.lower(), "method": g.control_method.name.lower(),
        "percent": g.damper_percentage, "low_battery": g.battery_status.name == "LOW", "turbo_support": g.supports_turbo,
        "setpoint": g.set_point, "sensor": g.has_sensor, "temperature": g.temperature, "spill": g.spill_active,
    } for g in m.groups]


def ac_status4(m):
    return [{
        "number": a.ac_number, "power": a.power_state.name.lower(), "mode": a.mode.name.lower(),
        "fan": _fan(a.fan_speed.name), "spill": a.spill_active, "timer_set": a.timer_set, "setpoint": a.set_point,
        "temperature": a.temperature, "error_code": a.error_code,
    } for a in m.ac_status]


def ability4(m):
    return [{
        "number": a.ac_number, "name": a.ac_name, "start": a.start_group, "count": a.group_count,
        "modes": _support(a.ac_mode_support), "fans": _support(a.fan_speed_support),
        "mode_keep": a.ac_mode_support.get(type(next(iter(a.ac_mode_support))).UNCHANGED),
        "min_sp": a.min_set_point, "max_sp": a.max_set_point, "groups": None if a.groups is None else set(a.groups),
    } for a in m.ac_abilities]


def ability5(m):
    return [{
        "number": a.ac_number, "name": a.ac_name, "start": a.start_zone, "count": a.zone_count,
        "modes": _support(a.ac_mode_support), "fans": _support(a.fan_speed_support),
        "min_cool": a.min_cool_set_point, "max_cool": a.max_cool_set_point,
        "min_heat": a.min_heat_set_point, "max_heat": a.max_heat_set_point,
    } for a in m.ac_abilities]


def timers(m):
    return [{"number": t.ac_number, "on": _timer(t.on_timer), "off": _timer(t.off_timer)} for t in m.ac_timer_status]


def zone_status5(m):
    return [{
        "number": z.zone_number, "power": z.power_state.name.lower(), "method": z.control_method.name.lower(),
        "percent": z.damper_percentage, "setpoint": z.set_point, "sensor": z.has_sensor, "temperature": z.temperature,
        "spill": z.spill_active, "low_battery": z.battery_status.name == "LOW",
    } for z in m.zones]


def ac_status5(m):
    return [{
        "number": a.ac_number, "power": _AC_POWER[a.power_state.name], "mode": a.mode.name.lower(),
        "fan": _fan(a.fan_speed.name), "setpoint": a.set_point, "turbo": a.turbo_active, "bypass": a.bypass_active,
        "spill": a.spill_active, "timer_set": a.timer_set, "temperature": a.temperature, "error_code": a.error_code,
    } for a in m.ac_status]
