"""E3 - independent, specification-derived codec (framing part).

Written from ref/spec/at4_v1.6.txt, ref/spec/at5_v1.2.txt and the recorded frame
in docs/design.md.  Nothing here imports pyairtouch.

* crc16_modbus: the bit-serial definition (xor byte, 8 x shift right / xor
  0xA001, init 0xFFFF); emitted high byte first as in every vendor example.
* frame4 / frame5: build a frame.
* parse_stream: the receive rule (fixed-size header, declared length, two check
  bytes, CRC over address..data).  Returns the frames and the first error.
"""

from __future__ import annotations

import struct
from dataclasses import dataclass
from typing import Optional

ADDR_CONSOLE = 0x80
ADDR_CONSOLE_EXT = 0x90
ADDR_CLIENT = 0xB0

TYPE_EXT = 0x1F
TYPE_C0 = 0xC0

AT4_PREFIX = b"\x55\x55"
AT5_OUTER = b"\x55\x55\x55\xab"
AT5_INNER = b"\x55\x55\x55\xaa"


def crc16_modbus_int(data: bytes, reg: int = 0xFFFF) -> int:
    for byte in data:
        reg ^= byte
        for _ in range(8):
            if reg & 1:
                reg = (reg >> 1) ^ 0xA001
            else:
                reg >>= 1
    return reg


def crc16_modbus(data: bytes) -> bytes:
    reg = crc16_modbus_int(data)
    return bytes([(reg >> 8) & 0xFF, reg & 0xFF])


@dataclass(frozen=True)
class Frame:
    gen: int
    to: int
    frm: int
    pid: int
    mtype: int
    data: bytes
    start: int = 0  # offset of the frame in the stream it was parsed from
    end: int = 0

    def key(self):
        return (self.to, self.frm, self.pid, self.mtype, self.data)


def body(to: int, frm: int, pid: int, mtype: int, data: bytes) -> bytes:
    return bytes([to & 0xFF, frm & 0xFF, pid & 0xFF, mtype & 0xFF]) + struct.pack(">H", len(data)) + bytes(data)


def frame4(to: int, frm: int, pid: int, mtype: int, data: bytes) -> bytes:
    b = body(to, frm, pid, mtype, data)
    return AT4_PREFIX + b + crc16_modbus(b)


def frame5(to: int, frm: int, pid: int, mtype: int, data: bytes) -> bytes:
    b = body(to, frm, pid, mtype, data)
    n = 10 + len(data) + 2  # inner header (prefix+addr+id+type+len) + data + crc
    return AT5_OUTER + b"\x00\x00" + struct.pack(">HH", n, n) + AT5_INNER + b + crc16_modbus(b)


def frame(gen: int, to: int, frm: int, pid: int, mtype: int, data: bytes) -> bytes:
    return frame4(to, frm, pid, mtype, data) if gen == 4 else frame5(to, frm, pid, mtype, data)


def header_len(gen: int) -> int:
    return 8 if gen == 4 else 20


@dataclass
class ParseResult:
    frames: list
    consumed: int            # bytes consumed by complete valid frames
    error: Optional[str]     # None | 'prefix' | 'outer-prefix' | 'outer-length' | 'inner-prefix' | 'length-mismatch' | 'crc'
    error_at: Optional[int]  # offset of the frame in which the error was found
    needed: int              # bytes a reader would have consumed when it found the error / when it stalled
    incomplete: bool         # stream ended inside a frame (no error seen yet)


def parse_stream(gen: int, buf: bytes) -> ParseResult:
    """Apply the receive rule to a byte stream from its beginning.

    The reader consumes a fixed-size header, validates it, consumes the declared
    number of data bytes and two check bytes, validates the CRC.  It stops at the
    first error (the rest of the connection is discarded by a conforming
    receiver because it cannot resynchronise) or when the stream ends.
    """
    frames = []
    i = 0
    n = len(buf)
    hl = header_len(gen)
    while i < n:
        if n - i < hl:
            return ParseResult(frames, i, None, None, i + hl, True)
        if gen == 4:
            if buf[i:i + 2] != AT4_PREFIX:
                return ParseResult(frames, i, "prefix", i, i + hl, False)
            b0 = i + 2
        else:
            if buf[i:i + 4] != AT5_OUTER:
                return ParseResult(frames, i, "outer-prefix", i, i + hl, False)
            n1, n2 = struct.unpack(">HH", buf[i + 6:i + 10])
            if n1 != n2:
                return ParseResult(frames, i, "outer-length", i, i + hl, False)
            if buf[i + 10:i + 14] != AT5_INNER:
                return ParseResult(frames, i, "inner-prefix", i, i + hl, False)
            b0 = i + 14
        to, frm, pid, mt, ln = struct.unpack(">BBBBH", buf[b0:b0 + 6])
        if gen == 5 and n1 != 10 + ln + 2:
            return ParseResult(frames, i, "length-mismatch", i, i + hl, False)
        end = b0 + 6 + ln + 2
        if end > n:
            return ParseResult(frames, i, None, None, end, True)
        data = bytes(buf[b0 + 6:b0 + 6 + ln])
        chk = bytes(buf[b0 + 6 + ln:end])
        if crc16_modbus(bytes(buf[b0:b0 + 6 + ln])) != chk:
            return ParseResult(frames, i, "crc", i, end, False)
        frames.append(Frame(gen, to, frm, pid, mt, data, i, end))
        i = end
    return ParseResult(frames, i, None, None, i, False)


def parse_all(gen: int, buf: bytes) -> list:
    """Parse a stream that must consist of complete valid frames only."""
    r = parse_stream(gen, buf)
    if r.error or r.incomplete or r.consumed != len(buf):
        raise ValueError(f"stream does not parse completely: error={r.error} at={r.error_at} "
                         f"incomplete={r.incomplete} consumed={r.consumed}/{len(buf)}")
    return r.frames


# --------------------------------------------------------------------------- vendor vectors
# Example frames from the vendor documents (ref/spec) and docs/design.md, used by
# the self test: the reference must reproduce the vendor bytes before it is
# allowed to judge the implementation.

def _h(s: str) -> bytes:
    return bytes.fromhex(s.replace("0x", "").replace(" ", ""))


VENDOR_AT4 = [
    # (to, from, id, type, data, crc) - ref/spec/at4_v1.6.txt
    (0x80, 0xB0, 1, 0x2A, _h("01 02 00 00"), _h("da 59")),   # l.160
    (0x80, 0xB0, 1, 0x2A, _h("00 10 00 00"), _h("23 f8")),   # l.163
    (0x80, 0xB0, 1, 0x2B, b"", _h("f5 2f")),                   # l.197
    (0xB0, 0x80, 1, 0x2B, _h("40 64 00 00 ff 00 41 e4 1a 80 61 80"), _h("65 79")),  # l.200
    (0x80, 0xB0, 1, 0x2C, _h("81 ff 3f 00"), _h("1a 96")),   # l.255
    (0x80, 0xB0, 1, 0x2C, _h("00 40 3f 00"), _h("c2 8f")),   # l.258
    (0x80, 0xB0, 1, 0x2D, b"", _h("f4 cf")),                   # l.306
    (0xB0, 0x80, 1, 0x2D, _h("40 42 1a 00 61 80 00 00 01 00 1a 00 61 80 ff fe"), _h("ca cb")),  # l.309
    (0x90, 0xB0, 1, 0x1F, _h("ff 11 00"), _h("09 83")),      # l.398
    (0x90, 0xB0, 1, 0x1F, _h("ff 10 00"), _h("99 82")),      # l.432
    (0x90, 0xB0, 1, 0x1F, _h("ff 12 00"), _h("f9 83")),      # l.460
    (0x90, 0xB0, 1, 0x1F, _h("ff 12"), _h("82 0c")),         # l.468
    (0x90, 0xB0, 1, 0x1F, _h("ff 30"), _h("9b 8c")),         # l.495
]

VENDOR_AT5 = [
    # inner frames (documented part), ref/spec/at5_v1.2.txt
    (0x80, 0xB0, 0x0F, 0xC0, _h("20 00 00 00 00 04 00 01 01 02 ff 00"), _h("f0 a1")),  # l.192
    (0x80, 0xB0, 1, 0xC0, _h("21 00 00 00 00 00 00 00"), _h("a4 31")),                  # l.236
    (0x80, 0xB0, 1, 0xC0, _h("22 00 00 00 00 04 00 01 21 ff 00 ff"), _h("d3 47")),      # l.300
    (0x80, 0xB0, 1, 0xC0, _h("23 00 00 00 00 00 00 00"), _h("7d b0")),                  # l.379
    (0x90, 0xB0, 1, 0x1F, _h("ff 11 00"), _h("09 83")),                                  # l.459
    (0x90, 0xB0, 1, 0x1F, _h("ff 10 00"), _h("99 82")),                                  # l.490
    (0x90, 0xB0, 1, 0x1F, _h("ff 13 00"), _h("69 82")),                                  # l.518
    (0x90, 0xB0, 1, 0x1F, _h("ff 13"), _h("42 cd")),                                     # l.526
    (0x90, 0xB0, 1, 0x1F, _h("ff 30"), _h("9b 8c")),                                     # l.557
]

# docs/design.md: the one recorded AT5 frame that shows the outer header.
RECORDED_AT5 = [
    _h("55 55 55 ab 00 00 00 0e 00 0e 55 55 55 aa 90 b0 31 1f 00 02 ff 13 b2 c8"),
    _h("55 55 55 ab 00 00 00 0e 00 0e 55 55 55 aa b0 90 31 1f 00 02 ff 13 68 eb"),
]


def selftest() -> list[str]:
    errs = []
    for to, frm, pid, mt, data, crc in VENDOR_AT4:
        f = frame4(to, frm, pid, mt, data)
        if f[-2:] != crc:
            errs.append(f"AT4 vendor crc mismatch for {data.hex()}: {f[-2:].hex()} != {crc.hex()}")
        fr = parse_all(4, f)
        if len(fr) != 1 or fr[0].key() != (to, frm, pid, mt, data):
            errs.append(f"AT4 vendor frame does not read back: {f.hex()}")
    for to, frm, pid, mt, data, crc in VENDOR_AT5:
        b = body(to, frm, pid, mt, data)
        if crc16_modbus(b) != crc:
            errs.append(f"AT5 vendor crc mismatch for {data.hex()}")
        f = frame5(to, frm, pid, mt, data)
        fr = parse_all(5, f)
        if len(fr) != 1 or fr[0].key() != (to, frm, pid, mt, data):
            errs.append(f"AT5 vendor frame does not read back: {f.hex()}")
    for rec in RECORDED_AT5:
        fr = parse_all(5, rec)
        f = fr[0]
        if frame5(f.to, f.frm, f.pid, f.mtype, f.data) != rec:
            errs.append("recorded AT5 frame not reproduced byte for byte")
    if crc16_modbus(b"123456789") != b"\x4b\x37":
        errs.append("CRC-16/MODBUS check value 0x4B37 not reproduced")
    return errs


if __name__ == "__main__":
    e = selftest()
    print("refproto selftest:", "OK" if not e else e)
