"""Hypothesis strategies for all 36 message / request classes (18 per generation).

Built by construction over the *protocol domain* of each field (see
notes/domains.md): enum members, numbers within the documented range,
temperatures on the raw grid written with the arithmetic the documents give,
names as UTF-8 text whose encoding fits the field, record lists 0..16 (status
messages the protocol cannot distinguish from a request when empty start at 1),
cross-field invariants stated by the dataclass docstrings (no sensor =>
temperature / set-point absent).
"""

from __future__ import annotations

import datetime

from hypothesis import strategies as st

import pyairtouch.at4.comms.x1F_ext as e4
import pyairtouch.at4.comms.x1FFF10_err_info as err4
import pyairtouch.at4.comms.x1FFF11_ac_ability as ab4
import pyairtouch.at4.comms.x1FFF12_group_names as gn4
import pyairtouch.at4.comms.x1FFF20_quick_timer as qt4
import pyairtouch.at4.comms.x1FFF30_console_ver as cv4
import pyairtouch.at4.comms.x2A_group_ctrl as gc4
import pyairtouch.at4.comms.x2B_group_status as gs4
import pyairtouch.at4.comms.x2C_ac_ctrl as ac4
import pyairtouch.at4.comms.x2D_ac_status as as4
import pyairtouch.at4.comms.x36_ac_timer_ctrl as tc4
import pyairtouch.at4.comms.x37_ac_timer_status as ts4
import pyairtouch.at5.comms.x1F_ext as e5
import pyairtouch.at5.comms.x1FFF10_err_info as err5
import pyairtouch.at5.comms.x1FFF11_ac_ability as ab5
import pyairtouch.at5.comms.x1FFF13_zone_names as zn5
import pyairtouch.at5.comms.x1FFF30_console_ver as cv5
import pyairtouch.at5.comms.x1FFF49_quick_timer as qt5
import pyairtouch.at5.comms.xC0_ctrl_status as c05
import pyairtouch.at5.comms.xC020_zone_ctrl as zc5
import pyairtouch.at5.comms.xC021_zone_status as zs5
import pyairtouch.at5.comms.xC022_ac_ctrl as ac5
import pyairtouch.at5.comms.xC023_ac_status as as5
import pyairtouch.at5.comms.xC032_ac_timer_ctrl as tc5
import pyairtouch.at5.comms.xC033_ac_timer_status as ts5

# ------------------------------------------------------------------ basic pieces

_ALPHABET = st.characters(min_codepoint=1, max_codepoint=0x2FFF, exclude_categories=("Cs",))


def utf8_text(max_bytes: int, *, min_bytes: int = 0, exclude: str = "") -> st.SearchStrategy[str]:
    """Text whose UTF-8 encoding has between min_bytes and max_bytes bytes, no NUL."""
    alpha = st.characters(min_codepoint=1, max_codepoint=0x2FFF, exclude_categories=("Cs",),
                          exclude_characters=exclude) if exclude else _ALPHABET

    def fit(s: str) -> str:
        while len(s.encode("utf-8")) > max_bytes:
            s = s[:-1]
        return s

    base = st.text(alpha, max_size=max_bytes).map(fit)
    if min_bytes:
        base = base.filter(lambda s: len(s.encode("utf-8")) >= min_bytes)
    return base


def long_text(max_bytes: int, *, exclude: str = "") -> st.SearchStrategy[str]:
    """Text whose UTF-8 encoding is at or just below max_bytes (lengths Hypothesis' text() rarely reaches), half of the
    time; any length otherwise."""
    chars = [c for c in "xA7 -_\u00e9\u00fc\u0416\u20ac\u2460" if c not in exclude]

    def build(t):
        n, picks = t
        out, size = [], 0
        for k in picks:
            c = chars[k % len(chars)]
            b = len(c.encode("utf-8"))
            if size + b > n:
                break
            out.append(c)
            size += b
        return "".join(out) + "x" * (n - size)

    near = st.tuples(st.integers(max(1, max_bytes - 6), max_bytes), st.lists(st.integers(0, 50), min_size=max_bytes, max_size=max_bytes)).map(build)
    return st.one_of(utf8_text(max_bytes, min_bytes=1, exclude=exclude), near)


def at4_temp_float(raw: int) -> float:
    return (raw - 500) / 10.0


def at5_sp_float(raw: int) -> float:
    return (raw + 100) / 10.0


u8 = st.integers(0, 255)
ac_no4 = st.integers(0, 3)
grp_no4 = st.integers(0, 15)
idx5 = st.integers(0, 15)
hours = st.integers(0, 23)
minutes = st.integers(0, 59)


def recs(elem, lo: int, hi: int = 16):
    return st.lists(elem, min_size=lo, max_size=hi)


# ------------------------------------------------------------------ AT4

_at4_group_setting = st.one_of(
    st.none(),
    st.sampled_from(list(gc4.GroupIncreaseDecrease)),
    st.integers(0, 100).map(gc4.GroupDamperControl),
    st.integers(0, 63).map(gc4.GroupSetPointControl),
)
at4_group_control = st.builds(
    gc4.GroupControlMessage, group_number=grp_no4, power=st.sampled_from(list(gc4.GroupPowerControl)),
    control_method=st.sampled_from(list(gc4.GroupControlMethod)), setting=_at4_group_setting)


@st.composite
def _at4_group_status_data(draw):
    sensor = draw(st.booleans())
    temp = None
    sp = None
    if sensor:
        # raw 2040 (0x7F8) is the documented sentinel pattern byte5 = 0xFF
        raw = draw(st.one_of(st.integers(0, 2039), st.sampled_from([0, 499, 500, 501, 780, 2039])))
        temp = at4_temp_float(raw)
        sp = draw(st.integers(0, 63))
    return gs4.GroupStatusData(
        group_number=draw(grp_no4), power_state=draw(st.sampled_from(list(gs4.GroupPowerState))),
        control_method=draw(st.sampled_from(list(gs4.GroupControlMethod))), spill_active=draw(st.booleans()),
        supports_turbo=draw(st.booleans()), has_sensor=sensor,
        battery_status=draw(st.sampled_from(list(gs4.SensorBatteryStatus))), temperature=temp,
        damper_percentage=draw(st.integers(0, 100)), set_point=sp)


at4_group_status = recs(_at4_group_status_data(), 1).map(gs4.GroupStatusMessage)
at4_group_status_req = st.just(gs4.GroupStatusRequest())

_at4_sp_control = st.one_of(st.none(), st.sampled_from(list(ac4.AcIncreaseDecrease)),
                            st.integers(0, 63).map(ac4.AcSetPointValue))
at4_ac_control = st.builds(
    ac4.AcControlMessage, ac_number=ac_no4, power=st.sampled_from(list(ac4.AcPowerControl)),
    mode=st.sampled_from(list(ac4.AcModeControl)), fan_speed=st.sampled_from(list(ac4.AcFanSpeedControl)),
    set_point_control=_at4_sp_control)

_at4_ac_status_data = st.builds(
    as4.AcStatusData, ac_number=ac_no4, power_state=st.sampled_from(list(as4.AcPowerState)),
    mode=st.sampled_from(list(as4.AcMode)), fan_speed=st.sampled_from(list(as4.AcFanSpeed)),
    spill_active=st.booleans(), timer_set=st.booleans(), set_point=st.integers(0, 63),
    temperature=st.one_of(st.integers(0, 2039), st.sampled_from([0, 500, 780])).map(at4_temp_float),
    error_code=st.one_of(st.just(0), st.integers(0, 0xFFFF)))
at4_ac_status = recs(_at4_ac_status_data, 1).map(as4.AcStatusMessage)
at4_ac_status_req = st.just(as4.AcStatusRequest())

_timer4 = st.builds(ts4.AcTimerState, disabled=st.booleans(), hour=hours, minute=minutes)


def _at4_timer_list(draw_states):
    return [ts4.AcTimerStatusData(ac_number=k, on_timer=a, off_timer=b) for k, (a, b) in enumerate(draw_states)]


_at4_timer_states = st.lists(st.tuples(_timer4, _timer4), min_size=4, max_size=4).map(_at4_timer_list)
at4_timer_status = _at4_timer_states.map(ts4.AcTimerStatusMessage)
at4_timer_status_req = st.just(ts4.AcTimerStatusRequest())
at4_timer_control = _at4_timer_states.map(lambda l: tc4.AcTimerControlMessage(ac_timer_status=l))

at4_err_msg = st.builds(err4.AcErrorInformationMessage, ac_number=ac_no4,
                        error_info=st.one_of(st.none(), long_text(255)))
at4_err_req = st.builds(err4.AcErrorInformationRequest, ac_number=ac_no4)


def _mode_support(mod):
    return st.fixed_dictionaries({m: st.booleans() for m in mod.AcModeControl if m.name != "UNCHANGED"}).map(
        lambda d: {**d, mod.AcModeControl.UNCHANGED: True})


def _fan_support(mod):
    return st.fixed_dictionaries({m: st.booleans() for m in mod.AcFanSpeedControl if m.name != "UNCHANGED"}).map(
        lambda d: {**d, mod.AcFanSpeedControl.UNCHANGED: True})


_at4_ability = st.builds(
    ab4.AcAbility, ac_number=ac_no4, ac_name=utf8_text(16), ac_mode_support=_mode_support(ac4),
    fan_speed_support=_fan_support(ac4), min_set_point=st.integers(0, 63), max_set_point=st.integers(0, 63),
    groups=st.one_of(st.none(), st.sets(grp_no4)), start_group=grp_no4, group_count=st.integers(0, 16))
at4_ability_msg = recs(_at4_ability, 1, 4).map(ab4.AcAbilityMessage)
at4_ability_req = st.one_of(st.just("ALL"), ac_no4).map(ab4.AcAbilityRequest)

at4_names_msg = st.dictionaries(grp_no4, utf8_text(8), min_size=1, max_size=16).map(gn4.GroupNamesMessage)
at4_names_req = st.one_of(st.just("ALL"), grp_no4).map(gn4.GroupNamesRequest)


def _duration():
    return st.builds(lambda h, m: datetime.timedelta(hours=h, minutes=m), hours, minutes)


at4_quick_timer = st.builds(qt4.QuickTimerMessage, ac_number=ac_no4, timer_type=st.sampled_from(list(qt4.TimerType)),
                            duration=_duration())


def _versions(sep: str):
    one = utf8_text(100, exclude=sep)
    # the version text is length-prefixed by one byte: up to 255 bytes in total (incl. separators)
    return st.one_of(st.lists(one, min_size=1, max_size=2), long_text(255, exclude=sep).map(lambda t: [t]),
                     st.tuples(long_text(127, exclude=sep), long_text(127, exclude=sep)).map(list))


at4_version_msg = st.builds(cv4.ConsoleVersionMessage, update_available=st.booleans(), versions=_versions("|"))
at4_version_req = st.just(cv4.ConsoleVersionRequest())


def ext4(s):
    return s.map(e4.ExtendedMessage)


# ------------------------------------------------------------------ AT5

_at5_zone_setting = st.one_of(
    st.none(),
    st.sampled_from(list(zc5.ZoneIncreaseDecrease)),
    st.integers(0, 100).map(zc5.ZoneDamperControl),
    st.integers(0, 250).map(at5_sp_float).map(zc5.ZoneSetPointControl),
)
_at5_zone_control_data = st.builds(zc5.ZoneControlData, zone_number=idx5,
                                   zone_power=st.sampled_from(list(zc5.ZonePowerControl)),
                                   zone_setting=_at5_zone_setting)
at5_zone_control = recs(_at5_zone_control_data, 0).map(zc5.ZoneControlMessage)


@st.composite
def _at5_zone_status_data(draw):
    sensor = draw(st.booleans())
    temp = None
    if sensor:
        raw = draw(st.one_of(st.integers(0, 2000), st.sampled_from([0, 499, 500, 501, 743, 2000])))
        temp = (raw - 500) / 10.0
    sp_raw = draw(st.one_of(st.none(), st.integers(0, 254)))
    return zs5.ZoneStatusData(
        zone_number=draw(idx5), power_state=draw(st.sampled_from(list(zs5.ZonePowerState))),
        spill_active=draw(st.booleans()), control_method=draw(st.sampled_from(list(zs5.ZoneControlMethod))),
        has_sensor=sensor, battery_status=draw(st.sampled_from(list(zs5.SensorBatteryStatus))), temperature=temp,
        damper_percentage=draw(st.integers(0, 100)), set_point=None if sp_raw is None else at5_sp_float(sp_raw))


at5_zone_status = recs(_at5_zone_status_data(), 0).map(zs5.ZoneStatusMessage)
at5_zone_status_req = st.just(zs5.ZoneStatusRequest())

_at5_ac_control_data = st.builds(
    ac5.AcControlData, ac_number=idx5, power=st.sampled_from(list(ac5.AcPowerControl)),
    mode=st.sampled_from(list(ac5.AcModeControl)), fan_speed=st.sampled_from(list(ac5.AcFanSpeedControl)),
    set_point=st.one_of(st.none(), st.integers(0, 250).map(at5_sp_float)))
at5_ac_control = recs(_at5_ac_control_data, 0).map(ac5.AcControlMessage)

_at5_ac_status_data = st.builds(
    as5.AcStatusData, ac_number=idx5, power_state=st.sampled_from(list(as5.AcPowerState)),
    mode=st.sampled_from(list(as5.AcMode)), fan_speed=st.sampled_from(list(as5.AcFanSpeed)),
    turbo_active=st.booleans(), bypass_active=st.booleans(), spill_active=st.booleans(), timer_set=st.booleans(),
    set_point=st.integers(0, 250).map(at5_sp_float),
    temperature=st.one_of(st.integers(0, 2000), st.sampled_from([0, 500, 730])).map(lambda r: (r - 500) / 10.0),
    error_code=st.one_of(st.just(0), st.integers(0, 0xFFFF)))
at5_ac_status = recs(_at5_ac_status_data, 0).map(as5.AcStatusMessage)
at5_ac_status_req = st.just(as5.AcStatusRequest())

_timer5 = st.builds(ts5.AcTimerState, disabled=st.booleans(), hour=hours, minute=minutes)
_at5_timer_data = st.builds(ts5.AcTimerStatusData, ac_number=idx5, on_timer=_timer5, off_timer=_timer5)
at5_timer_status = recs(_at5_timer_data, 0).map(ts5.AcTimerStatusMessage)
at5_timer_status_req = st.just(ts5.AcTimerStatusRequest())
at5_timer_control = recs(_at5_timer_data, 0).map(lambda l: tc5.AcTimerControlMessage(ac_timer_status=l))

at5_err_msg = st.builds(err5.AcErrorInformationMessage, ac_number=idx5,
                        error_info=st.one_of(st.none(), long_text(255)))
at5_err_req = st.builds(err5.AcErrorInformationRequest, ac_number=idx5)

_at5_ability = st.builds(
    ab5.AcAbility, ac_number=idx5, ac_name=utf8_text(16), start_zone=idx5, zone_count=st.integers(0, 16),
    ac_mode_support=_mode_support(ac5), fan_speed_support=_fan_support(ac5),
    min_cool_set_point=st.integers(10, 35), max_cool_set_point=st.integers(10, 35),
    min_heat_set_point=st.integers(10, 35), max_heat_set_point=st.integers(10, 35))
at5_ability_msg = recs(_at5_ability, 1, 8).map(ab5.AcAbilityMessage)
at5_ability_req = st.one_of(st.just("ALL"), idx5).map(ab5.AcAbilityRequest)

at5_names_msg = st.one_of(st.dictionaries(idx5, utf8_text(40), min_size=1, max_size=16),
                          st.dictionaries(idx5, long_text(24), min_size=10, max_size=16)).map(zn5.ZoneNamesMessage)
at5_names_req = st.one_of(st.just("ALL"), idx5).map(zn5.ZoneNamesRequest)

at5_quick_timer = st.builds(qt5.QuickTimerMessage, ac_number=idx5, timer_type=st.sampled_from(list(qt5.TimerType)),
                            duration=_duration())
at5_version_msg = st.builds(cv5.ConsoleVersionMessage, update_available=st.booleans(), versions=_versions(","))
at5_version_req = st.just(cv5.ConsoleVersionRequest())


def ext5(s):
    return s.map(e5.ExtendedMessage)


def c0w(s):
    return s.map(c05.ControlStatusMessage)


# name -> (strategy, direction) ; direction: "c2s" client->console, "s2c" console->client
KINDS = {
    4: {
        "group_control": (at4_group_control, "c2s"),
        "group_status": (at4_group_status, "s2c"),
        "group_status_req": (at4_group_status_req, "c2s"),
        "ac_control": (at4_ac_control, "c2s"),
        "ac_status": (at4_ac_status, "s2c"),
        "ac_status_req": (at4_ac_status_req, "c2s"),
        "timer_control": (at4_timer_control, "c2s"),
        "timer_status": (at4_timer_status, "s2c"),
        "timer_status_req": (at4_timer_status_req, "c2s"),
        "ext_err_msg": (ext4(at4_err_msg), "s2c"),
        "ext_err_req": (ext4(at4_err_req), "c2s"),
        "ext_ability_msg": (ext4(at4_ability_msg), "s2c"),
        "ext_ability_req": (ext4(at4_ability_req), "c2s"),
        "ext_names_msg": (ext4(at4_names_msg), "s2c"),
        "ext_names_req": (ext4(at4_names_req), "c2s"),
        "ext_quick_timer": (ext4(at4_quick_timer), "c2s"),
        "ext_version_msg": (ext4(at4_version_msg), "s2c"),
        "ext_version_req": (ext4(at4_version_req), "c2s"),
    },
    5: {
        "zone_control": (c0w(at5_zone_control), "c2s"),
        "zone_status": (c0w(at5_zone_status), "s2c"),
        "zone_status_req": (c0w(at5_zone_status_req), "c2s"),
        "ac_control": (c0w(at5_ac_control), "c2s"),
        "ac_status": (c0w(at5_ac_status), "s2c"),
        "ac_status_req": (c0w(at5_ac_status_req), "c2s"),
        "timer_control": (c0w(at5_timer_control), "c2s"),
        "timer_status": (c0w(at5_timer_status), "s2c"),
        "timer_status_req": (c0w(at5_timer_status_req), "c2s"),
        "ext_err_msg": (ext5(at5_err_msg), "s2c"),
        "ext_err_req": (ext5(at5_err_req), "c2s"),
        "ext_ability_msg": (ext5(at5_ability_msg), "s2c"),
        "ext_ability_req": (ext5(at5_ability_req), "c2s"),
        "ext_names_msg": (ext5(at5_names_msg), "s2c"),
        "ext_names_req": (ext5(at5_names_req), "c2s"),
        "ext_quick_timer": (ext5(at5_quick_timer), "c2s"),
        "ext_version_msg": (ext5(at5_version_msg), "s2c"),
        "ext_version_req": (ext5(at5_version_req), "c2s"),
    },
}

assert len(KINDS[4]) == 18 and len(KINDS[5]) == 18


def message(gen: int, kinds=None, direction=None):
    """(kind, message) for one generation, optionally restricted."""
    names = [k for k, (_, d) in KINDS[gen].items()
             if (kinds is None or k in kinds) and (direction is None or d == direction)]
    return st.sampled_from(names).flatmap(lambda k: KINDS[gen][k][0].map(lambda m: (k, m)))
