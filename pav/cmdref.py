"""Reference expectation for public control calls (C04, C11, C19, C02).

A call is a JSON-able list:
  ["ac_power", ac, "TOGGLE"]            ["ac_mode", ac, "HEAT", power_on]
  ["ac_fan", ac, "LOW"]                 ["ac_temp", ac, 22.35]
  ["zone_power", zone, "TURBO"]         ["zone_temp", zone, 21.0]
  ["zone_damper", zone, 55]             ["quick_duration", ac, "ON_TIMER", minutes]
  ["timer_time", ac, "OFF_TIMER", h, m] ["timer_clear", ac, "ON_TIMER"]
  ["updates"]

`expected(inst, state, call)` returns ("ValueError",) or ("frame", kind, record
predicate description) built from the API docstrings (pyairtouch/api.py) and the
console's own ability / status report - never from `supported_*` of the client.
"""

from __future__ import annotations

import datetime
import math

from pav import console as con
from pav import refcodec as rc

POWER_WORD = {"TOGGLE": "toggle", "TURN_OFF": "off", "TURN_ON": "on", "SET_TO_AWAY": "away", "SET_TO_SLEEP": "sleep"}
MODE_WORD = {"AUTO": "auto", "HEAT": "heat", "DRY": "dry", "FAN": "fan", "COOL": "cool"}
FAN_WORD = {"AUTO": "auto", "QUIET": "quiet", "LOW": "low", "MEDIUM": "medium", "HIGH": "high", "POWERFUL": "powerful",
            "TURBO": "turbo", "INTELLIGENT_AUTO": "intelligent_auto"}
ZONE_POWER_WORD = {"OFF": "off", "ON": "on", "TURBO": "turbo"}


def grid_neighbours(t: float, step_tenths: int):
    """Values on the resolution grid within half a step of t (both neighbours at ties).

    Returned as integers in tenths of a degree."""
    x = t * 10.0 / step_tenths
    lo, hi = math.floor(x), math.ceil(x)
    out = set()
    for k in (lo, hi):
        if abs(x - k) <= 0.5 + 1e-9:
            out.add(k * step_tenths)
    return out


def ac_limits(inst, state, ac: int):
    gen = inst["gen"]
    d = next(a for a in inst["acs"] if a["number"] == ac)
    if gen == 4:
        return d["min_sp"], d["max_sp"]
    mode = state["acs"][str(ac)]["mode"]
    if mode == "heat":
        return d["min_heat"], d["max_heat"]
    if mode == "cool":
        return d["min_cool"], d["max_cool"]
    return min(d["min_heat"], d["min_cool"]), max(d["max_heat"], d["max_cool"])


def expected(inst, state, call):
    gen = inst["gen"]
    name = call[0]
    if name == "updates":
        return ("frame", "version_req", None)
    if name.startswith(("ac_", "quick_", "timer_")):
        ac = call[1]
        d = next(a for a in inst["acs"] if a["number"] == ac)
    if name == "ac_power":
        ctrl = call[2]
        if gen == 4 and ctrl in ("SET_TO_AWAY", "SET_TO_SLEEP"):
            return ("ValueError",)
        return ("frame", "ac_control", {"target": ac, "power": POWER_WORD[ctrl], "mode": "keep", "fan": "keep", "setpoint": "keep"})
    if name == "ac_mode":
        mode, on = call[2], call[3]
        if MODE_WORD[mode] not in d["modes"]:
            return ("ValueError",)
        return ("frame", "ac_control", {"target": ac, "power": "on" if on else "keep", "mode": MODE_WORD[mode], "fan": "keep",
                                        "setpoint": "keep"})
    if name == "ac_fan":
        fan = call[2]
        if FAN_WORD[fan] not in d["fans"]:
            return ("ValueError",)
        return ("frame", "ac_control", {"target": ac, "power": "keep", "mode": "keep", "fan": FAN_WORD[fan], "setpoint": "keep"})
    if name == "ac_temp":
        t = call[2]
        lo, hi = ac_limits(inst, state, ac)
        step = 10 if gen == 4 else 1
        vals = {min(max(v, lo * 10), hi * 10) for v in grid_neighbours(t, step)}
        return ("frame", "ac_control", {"target": ac, "power": "keep", "mode": "keep", "fan": "keep", "setpoint": "value",
                                        "value_tenths": sorted(vals)})
    if name == "zone_power":
        z, p = call[1], call[2]
        zs = state["zones"][str(z)]
        if gen == 4 and p == "TURBO" and not zs["turbo_support"]:
            return ("ValueError",)
        return ("frame", "zone_control", {"target": z, "power": ZONE_POWER_WORD[p], "ctype": {"keep"}, "setting": "keep"})
    if name == "zone_temp":
        z, t = call[1], call[2]
        if not state["zones"][str(z)]["sensor"]:
            return ("ValueError",)
        step = 10 if gen == 4 else 1
        return ("frame", "zone_control", {"target": z, "power": "keep", "ctype": {"keep", "temperature"}, "setting": "setpoint",
                                          "value_tenths": sorted(grid_neighbours(t, step))})
    if name == "zone_damper":
        z, p = call[1], call[2]
        if p < 0 or p > 100:
            return ("ValueError",)
        return ("frame", "zone_control", {"target": z, "power": "keep", "ctype": {"keep", "percentage"}, "setting": "percent",
                                          "value": p})
    if name == "quick_duration":
        minutes = call[3]
        return ("frame", "quick_timer", {"target": ac, "type": "on" if call[2] == "ON_TIMER" else "off",
                                         "hours": (minutes // 60) % 24, "minutes": minutes % 60})
    if name in ("timer_time", "timer_clear"):
        which = "on" if call[2] == "ON_TIMER" else "off"
        other = "off" if which == "on" else "on"
        last = state["timers"][str(ac)]
        rec = {"target": ac, "other": other, "other_value": dict(last[other]), "which": which}
        if name == "timer_time":
            rec["value"] = {"disabled": False, "hour": call[3], "minute": call[4]}
        else:
            rec["disabled"] = True
        return ("frame", "timer_control", rec)
    raise ValueError(call)


def perform(rig, call):
    """Build the coroutine for a call on a live client (public API only)."""
    api = rig.api
    at = rig.at
    name = call[0]
    if name == "updates":
        return at.check_for_updates()
    acs = {a.ac_id: a for a in at.air_conditioners}
    zones = {}
    for a in at.air_conditioners:
        for z in a.zones:
            zones[z.zone_id] = z
    if name == "ac_power":
        return acs[call[1]].set_power(api.AcPowerControl[call[2]])
    if name == "ac_mode":
        if not call[3]:
            return acs[call[1]].set_mode(api.AcMode[call[2]])   # documented default: power_on=False
        return acs[call[1]].set_mode(api.AcMode[call[2]], power_on=True)
    if name == "ac_fan":
        return acs[call[1]].set_fan_speed(api.AcFanSpeed[call[2]])
    if name == "ac_temp":
        return acs[call[1]].set_target_temperature(call[2])
    if name == "zone_power":
        return zones[call[1]].set_power(api.ZonePowerState[call[2]])
    if name == "zone_temp":
        return zones[call[1]].set_target_temperature(call[2])
    if name == "zone_damper":
        return zones[call[1]].set_damper_percentage(call[2])
    if name == "quick_duration":
        # optional 5th element: extra milliseconds (0..59999); "the value will be truncated to a one minute resolution"
        return acs[call[1]].set_quick_timer(api.AcTimerType[call[2]],
                                            datetime.timedelta(minutes=call[3], milliseconds=call[4] if len(call) > 4 else 0))
    if name == "timer_time":
        ms = call[5] if len(call) > 5 else 0
        return acs[call[1]].set_quick_timer(api.AcTimerType[call[2]],
                                            datetime.time(hour=call[3], minute=call[4], second=ms // 1000, microsecond=(ms % 1000) * 1000))
    if name == "timer_clear":
        return acs[call[1]].clear_quick_timer(api.AcTimerType[call[2]])
    raise ValueError(call)


def judge_frame(gen: int, exp, fr) -> list:
    """Compare one captured frame (refproto.Frame) with the expectation.  Returns problems."""
    probs = []
    _, kind, rec = exp
    want_to = 0x90 if fr.mtype == 0x1F else 0x80
    if fr.to != want_to or fr.frm != 0xB0:
        probs.append(("address", f"frame addressed to {fr.to:#x} from {fr.frm:#x}, expected to {want_to:#x} from 0xb0"))
    got_kind, payload = rc.read_client_frame(gen, fr.mtype, fr.data)
    if got_kind != kind:
        probs.append(("kind", f"frame reads as {got_kind} ({fr.mtype:#x} {fr.data.hex()}), expected {kind}"))
        return probs
    if kind == "version_req":
        return probs
    if kind in ("ac_control", "zone_control"):
        if len(payload) != 1:
            probs.append(("records", f"{len(payload)} control records in one frame, expected 1"))
            return probs
        r = payload[0]
        for f in ("target", "power", "mode", "fan", "setpoint", "setting"):
            if f in rec and r.get(f) != rec[f]:
                probs.append((f"field:{f}", f"{f} reads {r.get(f)!r}, requested/expected {rec[f]!r} (data {fr.data.hex()})"))
        if "ctype" in rec and r["ctype"] not in rec["ctype"]:
            probs.append(("field:ctype", f"control type reads {r['ctype']!r}, allowed {sorted(rec['ctype'])} (data {fr.data.hex()})"))
        if "value" in rec and r.get("value") != rec["value"]:
            probs.append(("field:value", f"value reads {r.get('value')!r}, requested {rec['value']!r}"))
        if "value_tenths" in rec:
            v = r.get("value")
            ok = v is not None and v is not rc.UNDEFINED and round(v * 10) in rec["value_tenths"] and abs(v * 10 - round(v * 10)) < 1e-6
            if not ok:
                probs.append(("field:setpoint-value", f"set-point reads {v!r}, admissible {[x / 10 for x in rec['value_tenths']]}"))
        if gen == 4:
            if r.get("pad", 0) != 0:
                probs.append(("pad", "byte 4 is not 0"))
            if kind == "ac_control" and r["setpoint"] != "value" and r["raw_value"] != 0x3F:
                probs.append(("keep-value", f"set-point value bits are {r['raw_value']:#x}, the document requires 0x3f when no value is set"))
        else:
            if kind == "zone_control" and (r.get("pad", 0) != 0 or r.get("hi_bits", 0) != 0):
                probs.append(("pad", "reserved bits/bytes are not 0"))
            if kind == "ac_control" and r["control_byte"] not in (0x00, 0x40):
                probs.append(("control-byte", f"set-point control byte {r['control_byte']:#x} is neither 0x40 nor 0x00"))
            h = rc.read_c0_subheader(fr.data)
            if (h["normal"], h["rlen"], h["rcount"]) != (0, 4, 1):
                probs.append(("sub-header", f"0xC0 sub-header {(h['normal'], h['rlen'], h['rcount'])} != (0, 4, 1)"))
        return probs
    if kind == "quick_timer":
        for f in ("target", "type", "hours", "minutes"):
            if payload[f] != rec[f]:
                probs.append((f"field:{f}", f"quick timer {f} reads {payload[f]!r}, requested {rec[f]!r}"))
        return probs
    if kind == "timer_control":
        mine = [p for p in payload if p["number"] == rec["target"]]
        if len(mine) != 1:
            probs.append(("timer-target", f"timer control frame has {len(mine)} records for AC {rec['target']}"))
            return probs
        m = mine[0]
        if m[rec["other"]] != rec["other_value"]:
            probs.append(("other-timer", f"the untouched {rec['other']}-timer reads {m[rec['other']]}, last reported {rec['other_value']}"))
        if "value" in rec and m[rec["which"]] != rec["value"]:
            probs.append(("timer-value", f"the {rec['which']}-timer reads {m[rec['which']]}, requested {rec['value']}"))
        if rec.get("disabled") and not m[rec["which"]]["disabled"]:
            probs.append(("timer-clear", f"the cleared {rec['which']}-timer is not marked disabled"))
        return probs
    return probs
