"""E3 - independent, specification-derived codec (message part).

Readers and writers for the data part of AirTouch 4 / AirTouch 5 frames, written
from the tables in ref/spec/at4_v1.6.txt and ref/spec/at5_v1.2.txt (line numbers
are cited as `4:NNN` / `5:NNN`).  For the messages the vendor documents do not
cover (AT4 0x36/0x37 and 0xFF20, AT5 0xC0/0x32, 0xC0/0x33 and 0xFF49) the only
description available is the layout stated in the module docstrings of
pyairtouch; it is re-implemented here independently (weaker oracle, DESIGN §2).

Nothing here imports pyairtouch.  Values are plain python: strings for
enumerations, raw integers for temperatures/set-points plus the documented
conversion, `ABSENT` for documented "not available" sentinels and `UNDEFINED`
for codes the documents call "not available"/do not define.
"""

from __future__ import annotations

import struct

ABSENT = "<ABSENT>"
UNDEFINED = "<UNDEFINED>"
MALFORMED = "<MALFORMED>"

# --------------------------------------------------------------------------- tables

AC_MODE_STATUS = {0: "auto", 1: "heat", 2: "dry", 3: "fan", 4: "cool", 8: "auto_heat", 9: "auto_cool"}  # 4:277, 5:341
AC_MODE_CTRL = {0: "auto", 1: "heat", 2: "dry", 3: "fan", 4: "cool"}  # 4:233, 5:278  (other: keep)
FAN4_STATUS = {0: "auto", 1: "quiet", 2: "low", 3: "medium", 4: "high", 5: "powerful", 6: "turbo"}  # 4:285
FAN5_STATUS = dict(FAN4_STATUS)
FAN5_STATUS.update({9: "ia_quiet", 10: "ia_low", 11: "ia_medium", 12: "ia_high", 13: "ia_powerful", 14: "ia_turbo"})  # 5:356
FAN4_CTRL = dict(FAN4_STATUS)  # 4:239 (other: keep)
FAN5_CTRL = dict(FAN4_STATUS)
FAN5_CTRL[8] = "intelligent_auto"  # 5:291
AC_POWER4_STATUS = {0: "off", 1: "on"}  # 4:273 (10/11 not available)
AC_POWER5_STATUS = {0: "off", 1: "on", 2: "away_off", 3: "away_on", 5: "sleep"}  # 5:334
AC_POWER4_CTRL = {0: "keep", 1: "toggle", 2: "off", 3: "on"}  # 4:228
AC_POWER5_CTRL = {1: "toggle", 2: "off", 3: "on", 4: "away", 5: "sleep"}  # 5:271 (other keep)
ZONE_POWER_STATUS = {0: "off", 1: "on", 3: "turbo"}  # 4:178, 5:217
ZONE_POWER_CTRL = {0: "keep", 1: "toggle", 2: "off", 3: "on", 5: "turbo"}  # 4:151, 5:181
ZONE_SETTING = {0: "keep", 2: "dec", 3: "inc", 4: "percent", 5: "setpoint"}  # 4:142, 5:172
ZONE_CTYPE = {0: "keep", 1: "change", 2: "percentage", 3: "temperature"}  # 4:147, 5:177

MODE_BITS = ["auto", "heat", "dry", "fan", "cool"]  # bit1..bit5  4:352-356 / 5:431-435
FAN_BITS4 = ["auto", "quiet", "low", "medium", "high", "powerful", "turbo"]  # 4:363-369
FAN_BITS5 = FAN_BITS4 + ["intelligent_auto"]  # 5:436-443

INV = lambda d: {v: k for k, v in d.items()}  # noqa: E731


def temp_from_raw(raw: int) -> float:
    return (raw - 500) / 10  # 4:190, 5:227


def sp5_from_raw(raw: int) -> float:
    return (raw + 100) / 10  # 5:187, 5:223, 5:358


def cstr(b: bytes) -> str:
    """"If less than N bytes, end with 0" (4:347, 4:450)."""
    i = b.find(b"\0")
    if i >= 0:
        b = b[:i]
    return b.decode("utf-8")


def _text(b: bytes):
    try:
        return b.decode("utf-8")
    except UnicodeDecodeError:
        return MALFORMED


# =========================================================================== STATUS READERS
# Each returns ("request", ...) or ("status", [records]) or (MALFORMED, reason).


def read4_group_status(data: bytes):
    if len(data) == 0:
        return ("request",)
    if len(data) % 6:
        return (MALFORMED, "length not a multiple of 6")
    recs = []
    for i in range(0, len(data), 6):
        b1, b2, b3, b4, b5, b6 = data[i:i + 6]
        sensor = bool(b4 & 0x80)
        raw = ((b5 << 8) | b6) >> 5
        recs.append({
            "number": b1 & 0x3F,
            "power": ZONE_POWER_STATUS.get(b1 >> 6, UNDEFINED),
            "method": "temperature" if b2 & 0x80 else "damper",
            "percent": b2 & 0x7F,
            "low_battery": bool(b3 & 0x80),
            "turbo_support": bool(b3 & 0x40),
            "setpoint_raw": b3 & 0x3F,
            "sensor": sensor,
            "byte5": b5,
            "temp_raw": raw,
            "temperature": ABSENT if b5 == 0xFF else temp_from_raw(raw),  # 4:189
            "spill": bool(b6 & 0x10),
        })
    return ("status", recs)


def read4_ac_status(data: bytes):
    if len(data) == 0:
        return ("request",)
    if len(data) % 8:
        return (MALFORMED, "length not a multiple of 8")
    recs = []
    for i in range(0, len(data), 8):
        b1, b2, b3, _b4, b5, b6, b7, b8 = data[i:i + 8]
        raw = ((b5 << 8) | b6) >> 5
        recs.append({
            "number": b1 & 0x3F,
            "power": AC_POWER4_STATUS.get(b1 >> 6, UNDEFINED),
            "mode": AC_MODE_STATUS.get(b2 >> 4, UNDEFINED),
            "fan": FAN4_STATUS.get(b2 & 0x0F, UNDEFINED),
            "spill": bool(b3 & 0x80),
            "timer_set": bool(b3 & 0x40),
            "setpoint_raw": b3 & 0x3F,
            "setpoint": b3 & 0x3F,
            "byte5": b5,
            "temp_raw": raw,
            "temperature": ABSENT if b5 == 0xFF else temp_from_raw(raw),  # 4:297
            "error_code": (b7 << 8) | b8,
        })
    return ("status", recs)


def _bits(byte: int, names) -> set:
    return {n for k, n in enumerate(names) if byte & (1 << k)}


def read4_ability(data: bytes):
    """Data after FF 11."""
    if len(data) == 0:
        return ("request", "ALL")
    if len(data) == 1:
        return ("request", data[0])
    recs = []
    i = 0
    while i < len(data):
        if len(data) - i < 2:
            return (MALFORMED, "truncated record header")
        ac, follow = data[i], data[i + 1]
        if follow not in (22, 24) or i + 2 + follow > len(data):
            # 4:388: the documented values are 22 and, from console 1.2.3, 24; the documents give no reading for others
            return (MALFORMED, "following length")
        r = data[i + 2:i + 2 + follow]
        try:
            name = cstr(r[0:16])
        except UnicodeDecodeError:
            name = MALFORMED
        rec = {
            "number": ac, "following": follow, "name": name,
            "start": r[16], "count": r[17],
            "modes": _bits(r[18], MODE_BITS), "fans": _bits(r[19], FAN_BITS4),
            "min_sp": r[20], "max_sp": r[21],
            "groups": None,
        }
        if follow >= 24:
            word = r[22] | (r[23] << 8)  # 4:372-387: byte27 = groups 1..8, byte28 = groups 9..16
            rec["groups"] = {g for g in range(16) if word & (1 << g)}
        recs.append(rec)
        i += 2 + follow
    return ("status", recs)


def read4_group_names(data: bytes):
    if len(data) == 0:
        return ("request", "ALL")
    if len(data) == 1:
        return ("request", data[0])
    if len(data) % 9:
        return (MALFORMED, "length not a multiple of 9")
    names = {}
    for i in range(0, len(data), 9):
        try:
            names[data[i]] = cstr(data[i + 1:i + 9])
        except UnicodeDecodeError:
            return (MALFORMED, "name not utf-8")
    return ("status", names)


def read_error_info(data: bytes):
    """Data after FF 10 (same in both generations, 4:424 / 5:482)."""
    if len(data) == 0:
        return (MALFORMED, "empty")
    if len(data) == 1:
        return ("request", data[0])
    ac, ln = data[0], data[1]
    if 2 + ln != len(data):
        return (MALFORMED, "error info length")
    if ln == 0:
        return ("status", {"number": ac, "text": None})
    t = _text(data[2:2 + ln])
    if t is MALFORMED:
        return (MALFORMED, "text not utf-8")
    return ("status", {"number": ac, "text": t})


def read_version(data: bytes, sep: str):
    """Data after FF 30; sep '|' (4:491) or ',' (5:553)."""
    if len(data) == 0:
        return ("request",)
    if len(data) < 2:
        return (MALFORMED, "short")
    upd, ln = data[0], data[1]
    if 2 + ln != len(data):
        return (MALFORMED, "version length")
    t = _text(data[2:2 + ln])
    if t is MALFORMED:
        return (MALFORMED, "text not utf-8")
    return ("status", {"update": upd != 0, "versions": t.split(sep)})


def _timer(b1: int, m: int):
    return {"disabled": bool(b1 & 0x80), "hour": b1 & 0x1F, "minute": m & 0x3F}


def read4_timer_status(data: bytes):
    """0x37 / 0x36 (undocumented; layout from the module docstring: 8 bytes per
    AC, AC number implicit, on-timer 2 bytes, off-timer 2 bytes, 4 padding)."""
    if len(data) == 0:
        return ("request",)
    if len(data) % 8:
        return (MALFORMED, "length not a multiple of 8")
    recs = []
    for k in range(len(data) // 8):
        r = data[8 * k:8 * k + 8]
        recs.append({"number": k, "on": _timer(r[0], r[1]), "off": _timer(r[2], r[3])})
    return ("status", recs)


def read_c0_subheader(data: bytes):
    """5:146-156: sub type, 0, normal length, repeat length, repeat count."""
    if len(data) < 8:
        return None
    sub, _z, normal, rlen, rcount = struct.unpack(">BBHHH", data[:8])
    return {"sub": sub, "normal": normal, "rlen": rlen, "rcount": rcount, "body": data[8:]}


def _c0_records(h, known: int):
    """Records at k x announced stride (5:211-215: 'Use this specific value for
    data parsing')."""
    if h["rlen"] == 0 and h["rcount"] == 0:
        # a request carries nothing after the sub-header; trailing bytes the lengths do not account for have no reading
        return "request" if len(h["body"]) == h["normal"] else MALFORMED
    if h["rlen"] < known:
        return MALFORMED
    body = h["body"][h["normal"]:]
    if len(h["body"]) != h["normal"] + h["rlen"] * h["rcount"]:
        return MALFORMED
    return [body[k * h["rlen"]:k * h["rlen"] + h["rlen"]] for k in range(h["rcount"])]


def read5_zone_status(h):
    recs = _c0_records(h, 8)
    if recs == "request":
        return ("request",)
    if recs is MALFORMED:
        return (MALFORMED, "stride/length")
    out = []
    for r in recs:
        b1, b2, b3, b4, b5, b6, b7 = r[:7]
        raw = ((b5 & 0x07) << 8) | b6
        out.append({
            "number": b1 & 0x3F,
            "power": ZONE_POWER_STATUS.get(b1 >> 6, UNDEFINED),
            "method": "temperature" if b2 & 0x80 else "damper",
            "percent": b2 & 0x7F,
            "setpoint_raw": b3,
            "setpoint": ABSENT if b3 == 0xFF else sp5_from_raw(b3),  # 5:223
            "sensor": bool(b4 & 0x80),
            "temp_raw": raw,
            "temperature": temp_from_raw(raw) if raw <= 2000 else ABSENT,  # 5:227-228
            "spill": bool(b7 & 0x02),
            "low_battery": bool(b7 & 0x01),
        })
    return ("status", out)


def read5_ac_status(h):
    recs = _c0_records(h, 8)
    if recs == "request":
        return ("request",)
    if recs is MALFORMED:
        return (MALFORMED, "stride/length")
    out = []
    for r in recs:
        b1, b2, b3, b4, b5, b6, b7, b8 = r[:8]
        raw = ((b5 & 0x07) << 8) | b6
        out.append({
            "number": b1 & 0x0F,
            "power": AC_POWER5_STATUS.get(b1 >> 4, UNDEFINED),
            "mode": AC_MODE_STATUS.get(b2 >> 4, UNDEFINED),
            "fan": FAN5_STATUS.get(b2 & 0x0F, UNDEFINED),
            "setpoint_raw": b3,
            "setpoint": sp5_from_raw(b3) if b3 <= 250 else ABSENT,  # 5:358-359
            "turbo": bool(b4 & 0x08),
            "bypass": bool(b4 & 0x04),
            "spill": bool(b4 & 0x02),
            "timer_set": bool(b4 & 0x01),
            "temp_raw": raw,
            "temperature": temp_from_raw(raw) if raw <= 2000 else ABSENT,  # 5:366-367
            "error_code": (b7 << 8) | b8,
        })
    return ("status", out)


def read5_timer_status(h):
    """0xC0/0x33 and 0x32 (undocumented; layout from the module docstring: AC
    number, on-timer 2 bytes, off-timer 2 bytes, 4 padding = 9 bytes)."""
    recs = _c0_records(h, 9)
    if recs == "request":
        return ("request",)
    if recs is MALFORMED:
        return (MALFORMED, "stride/length")
    return ("status", [{"number": r[0], "on": _timer(r[1], r[2]), "off": _timer(r[3], r[4])} for r in recs])


def read5_ability(data: bytes):
    """Data after FF 11 (5:422-447)."""
    if len(data) == 0:
        return ("request", "ALL")
    if len(data) == 1:
        return ("request", data[0])
    recs = []
    i = 0
    while i < len(data):
        if len(data) - i < 2:
            return (MALFORMED, "truncated record header")
        ac, follow = data[i], data[i + 1]
        if follow != 24 or i + 2 + follow > len(data):
            # 5:413 '(24 at this moment)': no reading is documented for another value
            return (MALFORMED, "following length")
        r = data[i + 2:i + 2 + follow]
        try:
            name = cstr(r[0:16])
        except UnicodeDecodeError:
            name = MALFORMED
        recs.append({
            "number": ac, "following": follow, "name": name,
            "start": r[16], "count": r[17],
            "modes": _bits(r[18], MODE_BITS), "fans": _bits(r[19], FAN_BITS5),
            "min_cool": r[20], "max_cool": r[21], "min_heat": r[22], "max_heat": r[23],
        })
        i += 2 + follow
    return ("status", recs)


def read5_zone_names(data: bytes):
    """Data after FF 13 (5:510-515)."""
    if len(data) == 0:
        return ("request", "ALL")
    if len(data) == 1:
        return ("request", data[0])
    names = {}
    i = 0
    while i < len(data):
        if len(data) - i < 2:
            return (MALFORMED, "truncated")
        z, ln = data[i], data[i + 1]
        if i + 2 + ln > len(data):
            return (MALFORMED, "name exceeds message")
        t = _text(data[i + 2:i + 2 + ln])
        if t is MALFORMED:
            return (MALFORMED, "name not utf-8")
        names[z] = t
        i += 2 + ln
    return ("status", names)


# =========================================================================== COMMAND READERS


def read4_group_control(data: bytes):
    if len(data) != 4:
        return (MALFORMED, "length")
    b1, b2, b3, b4 = data
    setting = ZONE_SETTING.get(b2 >> 5, UNDEFINED)
    rec = {
        "target": b1,
        "power": ZONE_POWER_CTRL.get(b2 & 0x07, UNDEFINED),
        "ctype": ZONE_CTYPE[(b2 >> 3) & 3],
        "setting": setting,
        "value": b3 if setting in ("percent", "setpoint") else None,
        "raw_value": b3,
        "pad": b4,
    }
    return ("zone_control", [rec])


def read4_ac_control(data: bytes):
    if len(data) != 4:
        return (MALFORMED, "length")
    b1, b2, b3, b4 = data
    sc = {0: "keep", 1: "value", 2: "dec", 3: "inc"}[b3 >> 6]
    rec = {
        "target": b1 & 0x3F,
        "power": AC_POWER4_CTRL[b1 >> 6],
        "mode": AC_MODE_CTRL.get(b2 >> 4, "keep"),
        "fan": FAN4_CTRL.get(b2 & 0x0F, "keep"),
        "setpoint": sc,
        "value": (b3 & 0x3F) if sc == "value" else None,
        "raw_value": b3 & 0x3F,
        "pad": b4,
    }
    return ("ac_control", [rec])


def read5_zone_control(h):
    if h["normal"] != 0 or h["rlen"] != 4 or len(h["body"]) != 4 * h["rcount"]:
        return (MALFORMED, "sub header")
    recs = []
    for k in range(h["rcount"]):
        b1, b2, b3, b4 = h["body"][4 * k:4 * k + 4]
        setting = ZONE_SETTING.get(b2 >> 5, "keep")  # 5:176 other: keep
        if setting == "percent":
            value = b3
        elif setting == "setpoint":
            value = sp5_from_raw(b3) if b3 <= 250 else UNDEFINED  # 5:187
        else:
            value = None
        recs.append({
            "target": b1 & 0x3F, "hi_bits": b1 >> 6,
            "power": ZONE_POWER_CTRL.get(b2 & 0x07, "keep"),  # 5:185 other: keep
            "ctype": ZONE_CTYPE[(b2 >> 3) & 3],
            "setting": setting, "value": value, "raw_value": b3, "pad": b4,
        })
    return ("zone_control", recs)


def read5_ac_control(h):
    if h["normal"] != 0 or h["rlen"] != 4 or len(h["body"]) != 4 * h["rcount"]:
        return (MALFORMED, "sub header")
    recs = []
    for k in range(h["rcount"]):
        b1, b2, b3, b4 = h["body"][4 * k:4 * k + 4]
        if b3 == 0x40:
            sc, value = "value", sp5_from_raw(b4)
        elif b3 == 0x00:
            sc, value = "keep", None
        else:
            sc, value = "invalid", None  # 5:295
        recs.append({
            "target": b1 & 0x0F,
            "power": AC_POWER5_CTRL.get(b1 >> 4, "keep"),
            "mode": AC_MODE_CTRL.get(b2 >> 4, "keep"),
            "fan": FAN5_CTRL.get(b2 & 0x0F, "keep"),
            "setpoint": sc, "value": value, "control_byte": b3, "raw_value": b4,
        })
    return ("ac_control", recs)


def read_quick_timer(data: bytes):
    """0xFF20 / 0xFF49 (undocumented; docstring layout: AC, type 0=off 1=on, hours, minutes)."""
    if len(data) != 4:
        return (MALFORMED, "length")
    return ("quick_timer", {"target": data[0], "type": {0: "off", 1: "on"}.get(data[1], UNDEFINED),
                            "hours": data[2], "minutes": data[3]})


def read_client_frame(gen: int, mtype: int, data: bytes):
    """Semantic reading of a frame a client sent to the console.

    Returns (kind, payload) with kind in: version_req, names_req, ability_req,
    error_req, ac_status_req, zone_status_req, timer_status_req, zone_control,
    ac_control, timer_control, quick_timer, unknown, MALFORMED.
    """
    if mtype == 0x1F:
        if len(data) < 2:
            return (MALFORMED, "short extended")
        sub, rest = (data[0] << 8) | data[1], data[2:]
        if sub == 0xFF30:
            return ("version_req", None) if not rest else ("unknown", data)
        if sub == (0xFF12 if gen == 4 else 0xFF13):
            r = read4_group_names(rest) if gen == 4 else read5_zone_names(rest)
            return ("names_req", r[1]) if r[0] == "request" else ("unknown", data)
        if sub == 0xFF11:
            r = read4_ability(rest) if gen == 4 else read5_ability(rest)
            return ("ability_req", r[1]) if r[0] == "request" else ("unknown", data)
        if sub == 0xFF10:
            r = read_error_info(rest)
            return ("error_req", r[1]) if r[0] == "request" else ("unknown", data)
        if sub == (0xFF20 if gen == 4 else 0xFF49):
            return read_quick_timer(rest)
        return ("unknown", data)
    if gen == 4:
        if mtype == 0x2A:
            return read4_group_control(data)
        if mtype == 0x2C:
            return read4_ac_control(data)
        if mtype == 0x2B:
            return ("zone_status_req", None) if not data else ("unknown", data)
        if mtype == 0x2D:
            return ("ac_status_req", None) if not data else ("unknown", data)
        if mtype == 0x37:
            return ("timer_status_req", None) if not data else ("unknown", data)
        if mtype == 0x36:
            r = read4_timer_status(data)
            return ("timer_control", r[1]) if r[0] == "status" else (MALFORMED, "timer control")
        return ("unknown", data)
    if mtype == 0xC0:
        h = read_c0_subheader(data)
        if h is None:
            return (MALFORMED, "short C0")
        empty = h["normal"] == 0 and h["rlen"] == 0 and h["rcount"] == 0 and not h["body"]
        if h["sub"] == 0x20:
            return read5_zone_control(h)
        if h["sub"] == 0x22:
            return read5_ac_control(h)
        if h["sub"] == 0x21:
            return ("zone_status_req", None) if empty else ("unknown", data)
        if h["sub"] == 0x23:
            return ("ac_status_req", None) if empty else ("unknown", data)
        if h["sub"] == 0x33:
            return ("timer_status_req", None) if empty else ("unknown", data)
        if h["sub"] == 0x32:
            r = read5_timer_status(h)
            return ("timer_control", r[1]) if r[0] == "status" else (MALFORMED, "timer control")
        return ("unknown", data)
    return ("unknown", data)


# =========================================================================== CONSOLE WRITERS
# semantic console state -> data bytes


def _cname(name: str, n: int) -> bytes:
    b = name.encode("utf-8")
    assert len(b) <= n, (name, n)
    return b + b"\0" * (n - len(b))


def _bitmask(names, table) -> int:
    v = 0
    for k, n in enumerate(table):
        if n in names:
            v |= 1 << k
    return v


def write4_group_status(zones) -> bytes:
    out = bytearray()
    pw = INV(ZONE_POWER_STATUS)
    for z in zones:
        b1 = (pw[z["power"]] << 6) | (z["number"] & 0x3F)
        b2 = (0x80 if z["method"] == "temperature" else 0) | (z["percent"] & 0x7F)
        b3 = (0x80 if z["low_battery"] else 0) | (0x40 if z["turbo_support"] else 0) | (z["setpoint_raw"] & 0x3F)
        b4 = (0x80 if z["sensor"] else 0) | (z.get("b4_unused", 0) & 0x7F)
        if z["temp_raw"] is None:
            b5, b6hi = 0xFF, 0
        else:
            w = (z["temp_raw"] & 0x7FF) << 5
            b5, b6hi = w >> 8, w & 0xE0
        b6 = b6hi | (0x10 if z["spill"] else 0) | (z.get("b6_unused", 0) & 0x0F)
        out += bytes([b1, b2, b3, b4, b5, b6])
    return bytes(out)


def write4_ac_status(acs) -> bytes:
    out = bytearray()
    pw, md, fn = INV(AC_POWER4_STATUS), INV(AC_MODE_STATUS), INV(FAN4_STATUS)
    for a in acs:
        b1 = (pw[a["power"]] << 6) | (a["number"] & 0x3F)
        b2 = (md[a["mode"]] << 4) | fn[a["fan"]]
        b3 = (0x80 if a["spill"] else 0) | (0x40 if a["timer_set"] else 0) | (a["setpoint_raw"] & 0x3F)
        w = (a["temp_raw"] & 0x7FF) << 5
        out += bytes([b1, b2, b3, a.get("b4_unused", 0), w >> 8, (w & 0xE0) | (a.get("b6_unused", 0) & 0x1F),
                      a["error_code"] >> 8, a["error_code"] & 0xFF])
    return bytes(out)


def write4_ability(acs) -> bytes:
    """acs: dicts with number,name,start,count,modes,fans,min_sp,max_sp,groups(None|set)."""
    out = bytearray(b"\xff\x11")
    for a in acs:
        follow = 22 if a["groups"] is None else 24
        out += bytes([a["number"], follow]) + _cname(a["name"], 16)
        out += bytes([a["start"], a["count"], _bitmask(a["modes"], MODE_BITS), _bitmask(a["fans"], FAN_BITS4),
                      a["min_sp"], a["max_sp"]])
        if a["groups"] is not None:
            word = 0
            for g in a["groups"]:
                word |= 1 << g
            out += bytes([word & 0xFF, word >> 8])
    return bytes(out)


def write4_group_names(names: dict) -> bytes:
    out = bytearray(b"\xff\x12")
    for n, name in names.items():
        out += bytes([n]) + _cname(name, 8)
    return bytes(out)


def write_error_info(ac: int, text) -> bytes:
    t = (text or "").encode("utf-8")
    return b"\xff\x10" + bytes([ac, len(t)]) + t


def write_version(update: bool, versions, sep: str) -> bytes:
    t = sep.join(versions).encode("utf-8")
    return b"\xff\x30" + bytes([1 if update else 0, len(t)]) + t


def _wtimer(t) -> bytes:
    return bytes([(0x80 if t["disabled"] else 0) | (t["hour"] & 0x1F), t["minute"] & 0x3F])


def write4_timer_status(timers: dict) -> bytes:
    """timers: {ac_number: {"on":..., "off":...}}; always four records (docstring of 0x37)."""
    out = bytearray()
    for k in range(4):
        t = timers.get(k)
        if t is None:
            out += bytes(8)
        else:
            out += _wtimer(t["on"]) + _wtimer(t["off"]) + bytes(4)
    return bytes(out)


def c0(sub: int, normal: bytes, recs, stride=None) -> bytes:
    stride = stride if stride is not None else (len(recs[0]) if recs else 0)
    body = bytearray(normal)
    for r in recs:
        assert len(r) <= stride
        body += r + bytes(stride - len(r))
    return bytes([sub, 0]) + struct.pack(">HHH", len(normal), stride, len(recs)) + bytes(body)


def rec5_zone_status(z) -> bytes:
    pw = INV(ZONE_POWER_STATUS)
    b1 = (pw[z["power"]] << 6) | (z["number"] & 0x3F)
    b2 = (0x80 if z["method"] == "temperature" else 0) | (z["percent"] & 0x7F)
    b3 = 0xFF if z["setpoint_raw"] is None else z["setpoint_raw"]
    b4 = (0x80 if z["sensor"] else 0) | (z.get("b4_unused", 0) & 0x7F)
    raw = 0x7FF if z["temp_raw"] is None else z["temp_raw"]
    b5 = (raw >> 8) & 0x07 | (z.get("b5_unused", 0) & 0xF8)
    b7 = (0x02 if z["spill"] else 0) | (0x01 if z["low_battery"] else 0) | (z.get("b7_unused", 0) & 0xFC)
    return bytes([b1, b2, b3, b4, b5, raw & 0xFF, b7, z.get("b8_unused", 0)])


def write5_zone_status(zones, stride: int = 8, tail: bytes = b"") -> bytes:
    recs = [rec5_zone_status(z) + tail[:max(0, stride - 8)] for z in zones]
    return c0(0x21, b"", recs, stride if zones else 8)


def rec5_ac_status(a, size: int = 10) -> bytes:
    pw, md, fn = INV(AC_POWER5_STATUS), INV(AC_MODE_STATUS), INV(FAN5_STATUS)
    b1 = (pw[a["power"]] << 4) | (a["number"] & 0x0F)
    b2 = (md[a["mode"]] << 4) | fn[a["fan"]]
    b4 = (a.get("b4_unused", 0xC0) & 0xF0) | (8 if a["turbo"] else 0) | (4 if a["bypass"] else 0) | \
        (2 if a["spill"] else 0) | (1 if a["timer_set"] else 0)
    raw = a["temp_raw"]
    r = bytes([b1, b2, a["setpoint_raw"], b4, ((raw >> 8) & 0x07) | (a.get("b5_unused", 0) & 0xF8), raw & 0xFF,
               a["error_code"] >> 8, a["error_code"] & 0xFF])
    return r + bytes(max(0, size - 8))


def write5_ac_status(acs, stride: int = 10, tail: bytes = b"") -> bytes:
    recs = []
    for a in acs:
        r = rec5_ac_status(a, 8)
        extra = max(0, stride - 8)
        t = (tail + bytes(extra))[:extra]
        recs.append(r + t)
    return c0(0x23, b"", recs, stride if acs else 10)


def write5_timer_status(timers: dict, stride: int = 9, sub: int = 0x33) -> bytes:
    recs = [bytes([n]) + _wtimer(t["on"]) + _wtimer(t["off"]) + bytes(4) for n, t in timers.items()]
    return c0(sub, b"", recs, stride if recs else 9)


def write5_ability(acs) -> bytes:
    out = bytearray(b"\xff\x11")
    for a in acs:
        out += bytes([a["number"], 24]) + _cname(a["name"], 16)
        out += bytes([a["start"], a["count"], _bitmask(a["modes"], MODE_BITS), _bitmask(a["fans"], FAN_BITS5),
                      a["min_cool"], a["max_cool"], a["min_heat"], a["max_heat"]])
    return bytes(out)


def write5_zone_names(names: dict) -> bytes:
    out = bytearray(b"\xff\x13")
    for n, name in names.items():
        b = name.encode("utf-8")
        out += bytes([n, len(b)]) + b
    return bytes(out)


# --------------------------------------------------------------------------- self test


def _h(s: str) -> bytes:
    return bytes.fromhex(s.replace("0x", "").replace(" ", ""))


def selftest() -> list[str]:
    e = []

    def chk(cond, msg):
        if not cond:
            e.append(msg)

    # 4:200-211 group status example
    k, recs = read4_group_status(_h("40 64 00 00 ff 00 41 e4 1a 80 61 80"))
    chk(recs[0]["power"] == "on" and recs[0]["number"] == 0 and recs[0]["percent"] == 100 and
        recs[0]["temperature"] is ABSENT and not recs[0]["sensor"], "4: group 1 example")
    chk(recs[1]["number"] == 1 and recs[1]["method"] == "temperature" and recs[1]["setpoint_raw"] == 26 and
        recs[1]["temperature"] == 28.0 and recs[1]["sensor"], "4: group 2 example")
    chk(write4_group_status([
        dict(number=0, power="on", method="damper", percent=100, low_battery=False, turbo_support=False,
             setpoint_raw=0, sensor=False, temp_raw=None, spill=False),
        dict(number=1, power="on", method="temperature", percent=100, low_battery=False, turbo_support=False,
             setpoint_raw=26, sensor=True, temp_raw=780, spill=False)]) ==
        _h("40 64 00 00 ff 00 41 e4 1a 80 61 80"), "4: group status writer")
    # 4:309-328 AC status
    k, recs = read4_ac_status(_h("40 42 1a 00 61 80 00 00 01 00 1a 00 61 80 ff fe"))
    chk(recs[0]["power"] == "on" and recs[0]["mode"] == "cool" and recs[0]["fan"] == "low" and
        recs[0]["setpoint"] == 26 and recs[0]["temperature"] == 28.0 and recs[0]["error_code"] == 0, "4: AC0 example")
    chk(recs[1]["number"] == 1 and recs[1]["power"] == "off" and recs[1]["error_code"] == 0xFFFE, "4: AC1 example")
    chk(write4_ac_status([
        dict(number=0, power="on", mode="cool", fan="low", spill=False, timer_set=False, setpoint_raw=26,
             temp_raw=780, error_code=0),
        dict(number=1, power="off", mode="auto", fan="auto", spill=False, timer_set=False, setpoint_raw=26,
             temp_raw=780, error_code=0xFFFE)]) == _h("40 42 1a 00 61 80 00 00 01 00 1a 00 61 80 ff fe"),
        "4: AC status writer")
    # 4:401-417 ability
    ab = _h("ff 11 00 18 55 4e 49 54 00 00 00 00 00 00 00 00 00 00 00 00 00 04 17 1d 11 1f 07 00")
    k, recs = read4_ability(ab[2:])
    r = recs[0]
    chk(r["name"] == "UNIT" and r["start"] == 0 and r["count"] == 4 and r["modes"] == {"auto", "heat", "dry", "cool"}
        and r["fans"] == {"auto", "low", "medium", "high"} and r["min_sp"] == 17 and r["max_sp"] == 31
        and r["groups"] == {0, 1, 2}, f"4: ability example {r}")
    chk(write4_ability([dict(number=0, name="UNIT", start=0, count=4, modes=r["modes"], fans=r["fans"], min_sp=17,
                             max_sp=31, groups={0, 1, 2})]) == ab, "4: ability writer")
    # 4:463-479 names
    k, names = read4_group_names(_h("00 4c 69 76 69 6e 67 00 00 01 4b 69 74 63 68 65 6e 00 02 42 65 64 72 6f 6f 6d 00"))
    chk(names == {0: "Living", 1: "Kitchen", 2: "Bedroom"}, "4: names example")
    chk(write4_group_names(names)[2:] == _h("00 4c 69 76 69 6e 67 00 00 01 4b 69 74 63 68 65 6e 00 02 42 65 64 72 6f 6f 6d 00"),
        "4: names writer")
    # 4:435 error info, 4:503 version
    chk(read_error_info(_h("00 08 45 52 3a 20 46 46 46 45")) == ("status", {"number": 0, "text": "ER: FFFE"}), "err info")
    chk(write_error_info(0, "ER: FFFE") == _h("ff 10 00 08 45 52 3a 20 46 46 46 45"), "err info writer")
    chk(read_version(_h("00 0b 31 2e 33 2e 33 7c 31 2e 33 2e 33"), "|") ==
        ("status", {"update": False, "versions": ["1.3.3", "1.3.3"]}), "4: version")
    chk(write_version(False, ["1.0.3", "1.0.3"], ",") == _h("ff 30 00 0b 31 2e 30 2e 33 2c 31 2e 30 2e 33"), "5: version writer")
    # commands 4:160,163,255,258
    chk(read4_group_control(_h("01 02 00 00"))[1][0] | {} == dict(target=1, power="off", ctype="keep", setting="keep",
                                                                 value=None, raw_value=0, pad=0), "4: group off")
    chk(read4_group_control(_h("00 10 00 00"))[1][0]["ctype"] == "percentage", "4: group pct control")
    r = read4_ac_control(_h("81 ff 3f 00"))[1][0]
    chk(r["target"] == 1 and r["power"] == "off" and r["mode"] == "keep" and r["fan"] == "keep" and r["setpoint"] == "keep", "4: ac off")
    r = read4_ac_control(_h("00 40 3f 00"))[1][0]
    chk(r["target"] == 0 and r["power"] == "keep" and r["mode"] == "cool" and r["fan"] == "auto", "4: ac cool (fan nibble 0 = auto per table)")
    # AT5 5:192 zone control, 5:300/307 ac control
    r = read_client_frame(5, 0xC0, _h("20 00 00 00 00 04 00 01 01 02 ff 00"))
    chk(r[0] == "zone_control" and r[1][0] == dict(target=1, hi_bits=0, power="off", ctype="keep", setting="keep",
                                                    value=None, raw_value=0xFF, pad=0), f"5: zone off {r}")
    r = read_client_frame(5, 0xC0, _h("22 00 00 00 00 04 00 01 21 ff 00 ff"))[1][0]
    chk(r["target"] == 1 and r["power"] == "off" and r["mode"] == "keep" and r["fan"] == "keep" and r["setpoint"] == "keep", "5: ac off")
    r = read_client_frame(5, 0xC0, _h("22 00 00 00 00 04 00 02 00 4f 00 ff 01 ff 40 a0"))[1]
    chk(r[0]["mode"] == "cool" and r[0]["fan"] == "keep" and r[1]["setpoint"] == "value" and r[1]["value"] == 26.0, "5: cool / 26")
    # AT5 5:241 zone status, 5:384 ac status
    h = read_c0_subheader(_h("21 00 00 00 00 08 00 02 40 80 96 80 02 e7 00 00 01 64 ff 00 07 ff 00 00"))
    k, z = read5_zone_status(h)
    chk(z[0]["power"] == "on" and z[0]["method"] == "temperature" and z[0]["setpoint"] == 25.0 and z[0]["sensor"]
        and z[0]["temperature"] == 24.3, f"5: zone 1 {z[0]}")
    chk(z[1]["power"] == "off" and z[1]["percent"] == 100 and z[1]["setpoint"] is ABSENT and not z[1]["sensor"]
        and z[1]["temperature"] is ABSENT, "5: zone 2")
    chk(write5_zone_status([
        dict(number=0, power="on", method="temperature", percent=0, setpoint_raw=150, sensor=True, temp_raw=743,
             spill=False, low_battery=False),
        dict(number=1, power="off", method="damper", percent=100, setpoint_raw=None, sensor=False, temp_raw=None,
             spill=False, low_battery=False)]) ==
        _h("21 00 00 00 00 08 00 02 40 80 96 80 02 e7 00 00 01 64 ff 00 07 ff 00 00"), "5: zone status writer")
    h = read_c0_subheader(_h("23 00 00 00 00 0a 00 02 10 12 78 c0 02 da 00 00 80 00 01 42 64 c0 02 e4 00 00 80 00"))
    k, a = read5_ac_status(h)
    chk(a[0]["power"] == "on" and a[0]["mode"] == "heat" and a[0]["fan"] == "low" and a[0]["setpoint"] == 22.0
        and a[0]["temperature"] == 23.0, "5: AC0")
    chk(a[1]["number"] == 1 and a[1]["power"] == "off" and a[1]["mode"] == "cool" and a[1]["setpoint"] == 20.0
        and a[1]["temperature"] == 24.0, "5: AC1")
    w = write5_ac_status([
        dict(number=0, power="on", mode="heat", fan="low", setpoint_raw=120, turbo=False, bypass=False, spill=False,
             timer_set=False, temp_raw=730, error_code=0),
        dict(number=1, power="off", mode="cool", fan="low", setpoint_raw=100, turbo=False, bypass=False, spill=False,
             timer_set=False, temp_raw=740, error_code=0)], tail=b"\x80\x00")
    chk(w == _h("23 00 00 00 00 0a 00 02 10 12 78 c0 02 da 00 00 80 00 01 42 64 c0 02 e4 00 00 80 00"), "5: AC status writer")
    # 5:462 ability
    ab = _h("ff 11 00 18 55 4e 49 54 00 00 00 00 00 00 00 00 00 00 00 00 00 04 17 1d 10 1f 12 1f")
    k, recs = read5_ability(ab[2:])
    r = recs[0]
    chk(r["name"] == "UNIT" and r["count"] == 4 and r["min_cool"] == 16 and r["max_cool"] == 31 and r["min_heat"] == 18
        and r["max_heat"] == 31, "5: ability")
    chk(write5_ability([dict(number=0, name="UNIT", start=0, count=4, modes=r["modes"], fans=r["fans"], min_cool=16,
                             max_cool=31, min_heat=18, max_heat=31)]) == ab, "5: ability writer")
    # 5:529 names
    nm = _h("00 06 4c 69 76 69 6e 67 01 07 4b 69 74 63 68 65 6e 02 07 42 65 64 72 6f 6f 6d")
    chk(read5_zone_names(nm) == ("status", {0: "Living", 1: "Kitchen", 2: "Bedroom"}), "5: names")
    chk(write5_zone_names({0: "Living", 1: "Kitchen", 2: "Bedroom"})[2:] == nm, "5: names writer")
    # requests
    chk(read_client_frame(5, 0xC0, _h("21 00 00 00 00 00 00 00")) == ("zone_status_req", None), "5: zone status req")
    chk(read_client_frame(5, 0xC0, _h("23 00 00 00 00 00 00 00")) == ("ac_status_req", None), "5: ac status req")
    chk(read_client_frame(4, 0x1F, _h("ff 12")) == ("names_req", "ALL"), "4: names req")
    chk(read_client_frame(4, 0x1F, _h("ff 11 00")) == ("ability_req", 0), "4: ability req")
    chk(read_client_frame(5, 0x1F, _h("ff 30")) == ("version_req", None), "version req")
    return e


if __name__ == "__main__":
    errs = selftest()
    print("refcodec selftest:", "OK" if not errs else errs)
