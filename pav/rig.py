"""Rigs: one fresh virtual loop + fake network + client object per generated case."""

from __future__ import annotations

import pyairtouch.at4.comms.registry as reg4
import pyairtouch.at5.comms.registry as reg5
import pyairtouch.comms.socket as sockmod
from pyairtouch.comms.socket import AirTouchSocket

from pav import fakenet, harness
from pav.vloop import new_loop

fakenet.install()
harness.install_logging()

PORT = {4: 9004, 5: 9005}


def registry(gen: int):
    return reg4.INSTANCE if gen == 4 else reg5.INSTANCE


def reset_globals() -> None:
    """Reset module-level state of the code under test (packet counters)."""
    for r in (reg4.INSTANCE, reg5.INSTANCE):
        hf = r.header_factory
        if hasattr(hf, "_next_packet_id"):
            hf._next_packet_id = 0
    harness.LOG.records.clear()


class SockRig:
    """A bare AirTouchSocket on a virtual loop and fake network."""

    def __init__(self, gen: int, *, subscribe: bool = True) -> None:
        reset_globals()
        self.gen = gen
        self.loop = new_loop()
        self.net = fakenet.FakeNet(self.loop)
        self.sock = AirTouchSocket(self.loop, "console.test", PORT[gen], registry(gen))
        self.received: list = []      # (t, header, message)
        self.conn_events: list = []   # (t, connected)
        if subscribe:
            self.sock.subscribe_on_message_received(self._on_message)
            self.sock.subscribe_on_connection_changed(self._on_conn)

    async def _on_message(self, header, message) -> None:
        self.received.append((self.loop.time(), header, message))

    async def _on_conn(self, *, connected: bool) -> None:
        self.conn_events.append((self.loop.time(), connected))

    def open(self) -> None:
        r = self.loop.call(self.sock.open_socket())
        if r[0] != "ok":
            raise harness.HarnessError(f"open_socket: {r}")

    def close(self):
        return self.loop.call(self.sock.close())

    def send(self, message, policy=sockmod.RETRY_IDEMPOTENT):
        return self.loop.call(self.sock.send(message, policy))

    def send_with_header(self, header, message, policy=sockmod.RETRY_IDEMPOTENT):
        return self.loop.call(self.sock.send_with_header(header, message, policy))

    def dispose(self) -> None:
        self.loop.dispose()


def make_header(gen: int, to: int, frm: int, pid: int, mid: int, length: int):
    import pyairtouch.at4.comms.hdr as hdr4
    import pyairtouch.at5.comms.hdr as hdr5
    cls = hdr4.At4Header if gen == 4 else hdr5.At5Header
    return cls(to_address=to, from_address=frm, packet_id=pid, message_id=mid, message_length=length)


def console_frames(gen: int, messages, pid0: int = 1) -> list[bytes]:
    """Frames a console would send for `messages` (to 0xB0, from 0x80/0x90),
    produced by the real send path (whose round trip is the subject of C03)."""
    from pav import refproto
    reg = registry(gen)
    a = SockRig(gen, subscribe=False)
    try:
        a.open()
        for k, m in enumerate(messages):
            size = reg.get_encoder(m.message_id).size(m)
            frm = 0x90 if m.message_id == 0x1F else 0x80
            r = a.send_with_header(make_header(gen, 0xB0, frm, (pid0 + k) % 256, m.message_id, size), m)
            if r[0] != "ok":
                raise harness.HarnessError(f"console_frames: send failed {r}")
        wire = a.net.conns[0].tx_bytes()
    finally:
        a.dispose()
    frames = refproto.parse_all(gen, wire)
    if len(frames) != len(messages):
        raise harness.HarnessError("console_frames: frame count mismatch")
    return [wire[f.start:f.end] for f in frames]


class ApiRig:
    """pyairtouch.connect(...) against a simulated console on a virtual loop."""

    def __init__(self, inst, state, behaviour=None, *, connect_script=None) -> None:
        import pyairtouch
        from pav.console import Console
        reset_globals()
        self.api = pyairtouch
        self.inst = inst
        self.gen = inst["gen"]
        self.loop = new_loop()
        self.net = fakenet.FakeNet(self.loop)
        for e in (connect_script or ()):
            self.net.script.append(tuple(e))
        self.console = Console(self.net, inst, state, behaviour)
        model = pyairtouch.AirTouchModel.AIRTOUCH_4 if self.gen == 4 else pyairtouch.AirTouchModel.AIRTOUCH_5

        async def mk():
            return pyairtouch.connect(model, "console.test", PORT[self.gen])

        r = self.loop.call(mk())
        if r[0] != "ok":
            raise harness.HarnessError(f"connect(): {r}")
        self.at = r[1]
        self.init_task = None
        self.init_returned_at = None

    def start_init(self):
        self.init_task = self.loop.spawn(self.at.init())

        def done(_t):
            self.init_returned_at = self.loop.time()
        self.init_task.add_done_callback(done)
        self.loop.settle()
        return self.init_task

    def run_init(self, limit: float = 7.0):
        """Start init() and run until it returns (or `limit` virtual seconds)."""
        t = self.start_init()
        t0 = self.loop.time()
        while not t.done() and self.loop.time() - t0 < limit:
            self.loop.advance(0.0625)
        from pav.vloop import outcome
        return outcome(t)

    @property
    def sock(self):
        return self.at._socket

    @property
    def cur(self):
        return self.net.current

    def dispose(self) -> None:
        self.loop.dispose()
