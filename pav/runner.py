"""E6 - the runner behind /verif/check.

  ./check <id> [--tier quick|thorough] [--replay file] [--jobs N]

Reads VERIF_SEED (default 1), VERIF_TIER, VERIF_REPO (default /repo).  Imports
pyairtouch from the working tree (pure python: "rebuild" = fresh interpreter),
shards the check's work over up to 16 processes, merges shard statistics, writes
evidence/<id>.json and exits

  0  property held on everything explored (KNOWN-FINDING lines may be printed)
  1  after printing `VIOLATION property=<id> replay=<path>`
  2  after printing `HARNESS-ERROR ...` (never a VIOLATION)
"""

from __future__ import annotations

import argparse
import hashlib
import importlib
import json
import multiprocessing
import os
import sys
import time
import traceback

VERIF = os.path.dirname(os.path.dirname(os.path.abspath(__file__)))


def _prepare_paths() -> str:
    repo = os.environ.get("VERIF_REPO", "/repo")
    repo = os.path.abspath(repo)
    for p in (os.path.join(VERIF, ".deps"), VERIF, repo):
        if p in sys.path:
            sys.path.remove(p)
    sys.path.insert(0, os.path.join(VERIF, ".deps"))
    sys.path.insert(0, VERIF)
    sys.path.insert(0, repo)
    return repo


def stable_hash(obj) -> int:
    s = json.dumps(obj, sort_keys=True, default=repr, separators=(",", ":"))
    return int.from_bytes(hashlib.blake2b(s.encode(), digest_size=8).digest(), "big")


def shard_seed(seed: int, cid: str, shard_index: int) -> int:
    h = hashlib.blake2b(f"{seed}/{cid}/{shard_index}".encode(), digest_size=8).digest()
    return int.from_bytes(h, "big") >> 1


def load_known() -> dict:
    path = os.path.join(VERIF, "known_findings.json")
    try:
        with open(path) as f:
            return json.load(f)
    except FileNotFoundError:
        return {"known": [], "fixed": []}


def known_keys(cid: str) -> dict:
    return {e["key"]: e for e in load_known().get("known", []) if e.get("property") == cid}


def _run_shard(arg):
    modname, spec, seed, tier = arg
    os.environ["PAV_IN_SHARD"] = "1"
    os.environ.setdefault("PAV_SHRINK_BUDGET", "5" if tier == "quick" else "40")
    import warnings
    warnings.simplefilter("ignore")
    try:
        mod = importlib.import_module(modname)
        t0 = time.time()
        res = mod.run_shard(spec, seed, tier)
        res.setdefault("wall_s", time.time() - t0)
        return ("ok", spec, res)
    except BaseException as exc:  # noqa: BLE001
        if hasattr(exc, "as_dict") and hasattr(exc, "key"):
            # a Violation raised outside a Hypothesis driver (plain enumeration)
            return ("ok", spec, {"evaluations": 1, "violations": [exc.as_dict()]})
        return ("error", spec, traceback.format_exc())


def _child(conn, arg):
    try:
        conn.send(_run_shard(arg))
    except BaseException:  # noqa: BLE001
        try:
            conn.send(("error", arg[1], traceback.format_exc()))
        except Exception:  # noqa: BLE001
            pass
    finally:
        conn.close()


def run_parallel(work, jobs: int, timeout: float):
    """Run shards in worker processes the parent can kill (a hanging shard is
    reported as an inconclusive harness error, never as a violation)."""
    ctx = multiprocessing.get_context("fork")
    pending = list(work)
    running = []   # (proc, conn, arg, t_start)
    results = []
    while pending or running:
        while pending and len(running) < jobs:
            arg = pending.pop(0)
            parent, child = ctx.Pipe(duplex=False)
            p = ctx.Process(target=_child, args=(child, arg), daemon=True)
            p.start()
            child.close()
            running.append((p, parent, arg, time.time()))
        still = []
        for p, conn, arg, t0 in running:
            got = None
            try:
                if conn.poll(0.02):
                    got = conn.recv()
            except (EOFError, OSError):
                got = ("error", arg[1], "worker process died without a result")
            if got is not None:
                results.append(got)
                p.join(5)
                if p.is_alive():
                    p.kill()
                conn.close()
            elif time.time() - t0 > timeout:
                p.kill()
                p.join(5)
                conn.close()
                results.append(("error", arg[1], f"shard exceeded its {timeout:.0f} s wall-clock watchdog (inconclusive): "
                                                 "the code under test or the harness hangs"))
            elif not p.is_alive() and not conn.poll(0.05):
                conn.close()
                results.append(("error", arg[1], f"worker process exited with code {p.exitcode} without a result"))
            else:
                still.append((p, conn, arg, t0))
        running = still
    return results


def write_replay(cid: str, violation: dict) -> str:
    os.makedirs(os.path.join(VERIF, "replays"), exist_ok=True)
    h = "%016x" % stable_hash([violation.get("key"), violation.get("case")])
    path = os.path.join(VERIF, "replays", f"{cid}-{h[:12]}.json")
    with open(path, "w") as f:
        json.dump({"property": cid, "key": violation.get("key"), "what": violation.get("what"),
                   "case": violation.get("case")}, f, indent=1, default=repr)
    return path


def main(argv=None) -> int:
    ap = argparse.ArgumentParser()
    ap.add_argument("id")
    ap.add_argument("--tier", default=os.environ.get("VERIF_TIER") or "quick", choices=["quick", "thorough"])
    ap.add_argument("--replay")
    ap.add_argument("--jobs", type=int, default=int(os.environ.get("VERIF_JOBS", "16")))
    ap.add_argument("--no-evidence", action="store_true")
    args = ap.parse_args(argv)
    cid = args.id.upper()
    try:
        seed = int(os.environ.get("VERIF_SEED", "1") or "1")
    except ValueError:
        seed = 1
    t_start = time.time()
    try:
        repo = _prepare_paths()
        import pyairtouch  # noqa: F401
        pf = os.path.abspath(pyairtouch.__file__)
        if not pf.startswith(repo + os.sep):
            print(f"HARNESS-ERROR pyairtouch imported from {pf}, expected under {repo}")
            return 2
        import hypothesis  # noqa: F401
        if cid == "SELFTEST":
            from pav import selftest
            return selftest.main()
        modname = f"pav.checks.{cid.lower()}"
        mod = importlib.import_module(modname)
    except Exception:  # noqa: BLE001
        print("HARNESS-ERROR setup failed")
        traceback.print_exc()
        return 2

    if args.replay:
        try:
            with open(args.replay) as f:
                rep = json.load(f)
            v = mod.replay(rep["case"])
        except Exception:  # noqa: BLE001
            print("HARNESS-ERROR replay failed")
            traceback.print_exc()
            return 2
        if v:
            kk = known_keys(cid)
            if v.get("key") in kk:
                print(f"KNOWN-FINDING: property={cid} {kk[v['key']]['what']}")
                return 0
            print(f"replay reproduces: {v.get('what')}")
            print(f"VIOLATION property={cid} replay={args.replay}")
            return 1
        print("replay: no violation")
        return 0

    try:
        specs = mod.shards(args.tier)
        work = [(modname, spec, shard_seed(seed, cid, i), args.tier) for i, spec in enumerate(specs)]
        results = []
        jobs = max(1, min(args.jobs, len(work)))
        if jobs == 1 and os.environ.get("PAV_INLINE"):
            results = [_run_shard(w) for w in work]
        else:
            to = float(os.environ.get("PAV_SHARD_TIMEOUT", "300" if args.tier == "quick" else "5400"))
            results = run_parallel(work, jobs, to)
    except Exception:  # noqa: BLE001
        print("HARNESS-ERROR running shards")
        traceback.print_exc()
        return 2

    errors = [r for r in results if r[0] == "error"]
    results = [r for r in results if r[0] == "ok"]
    if errors and not any(r[2].get("violations") for r in results):
        print("HARNESS-ERROR shard crashed:")
        for _, spec, tb in errors[:3]:
            print(" shard", spec)
            print(tb[-3000:])
        return 2

    # ---- merge
    evaluations = 0
    classes: dict = {}
    samples: list = []
    nt_hashes: set = set()
    nt_count_disjoint = 0
    violations: list = []
    known_hits: dict = {}
    extra: dict = {}
    exhaustive_flags = []
    for _, spec, res in results:
        evaluations += int(res.get("evaluations", 0))
        for k, v in (res.get("classes") or {}).items():
            classes[k] = classes.get(k, 0) + v
        for s in (res.get("samples") or []):
            if len(samples) < 8:
                samples.append(s)
        nt_hashes.update(res.get("nt_hashes") or ())
        nt_count_disjoint += int(res.get("nt_disjoint", 0))
        violations.extend(res.get("violations") or [])
        for k, v in (res.get("known_hits") or {}).items():
            known_hits[k] = known_hits.get(k, 0) + v
        for k, v in (res.get("extra") or {}).items():
            if isinstance(v, (int, float)) and not isinstance(v, bool):
                extra[k] = extra.get(k, 0) + v
            else:
                extra[k] = v
        if "exhaustive" in res:
            exhaustive_flags.append(bool(res["exhaustive"]))
    distinct_nt = len(nt_hashes) + nt_count_disjoint

    kk = known_keys(cid)
    real = [v for v in violations if v.get("key") not in kk]
    for v in violations:
        if v.get("key") in kk:
            known_hits[v["key"]] = known_hits.get(v["key"], 0) + 1

    floors = {}
    try:
        floors = mod.floors(args.tier) if hasattr(mod, "floors") else {}
    except Exception:  # noqa: BLE001
        floors = {}
    floor_miss = {k: (classes.get(k, 0), need) for k, need in floors.items() if classes.get(k, 0) < need}

    wall = time.time() - t_start
    coverage = {
        "evaluations": evaluations,
        "distinct_nontrivial": distinct_nt,
        "rule": getattr(mod, "RULE", ""),
        "samples": samples,
        "classes": dict(sorted(classes.items())),
        "shards": len(results),
        "floors": floors,
        "known_finding_hits": known_hits,
    }
    coverage.update(extra)
    if exhaustive_flags:
        coverage["exhaustive"] = all(exhaustive_flags) and len(exhaustive_flags) == len(results)
        coverage["exhaustive_shards"] = sum(1 for f in exhaustive_flags if f)
    if errors:
        coverage["crashed_shards"] = len(errors)
    if hasattr(mod, "coverage_extra"):
        coverage.update(mod.coverage_extra(args.tier))
    evidence = {
        "property_id": cid,
        "tier": args.tier,
        "seed": seed,
        "level": getattr(mod, "LEVEL", "exploration"),
        "coverage": coverage,
        "assumptions": list(getattr(mod, "ASSUMPTIONS", [])),
        "wall_s": round(wall, 3),
        "violations": len(real),
        "repo": repo,
    }
    if not args.no_evidence:
        os.makedirs(os.path.join(VERIF, "evidence"), exist_ok=True)
        with open(os.path.join(VERIF, "evidence", f"{cid}.json"), "w") as f:
            json.dump(evidence, f, indent=1, default=repr)
            f.write("\n")

    print(f"[{cid}] tier={args.tier} seed={seed} evaluations={evaluations} distinct_nontrivial={distinct_nt} "
          f"violations={len(real)} wall={wall:.1f}s")
    for k in sorted(known_hits):
        if k in kk:
            print(f"KNOWN-FINDING: property={cid} {kk[k]['what']} (hits={known_hits[k]})")
    if real:
        seen = set()
        for v in real:
            if v.get("key") in seen:
                continue
            seen.add(v.get("key"))
            path = write_replay(cid, v)
            print(f"  what: {v.get('what')}")
            print(f"VIOLATION property={cid} replay={path}")
            if len(seen) >= 5:
                break
        return 1
    if floor_miss:
        print(f"HARNESS-ERROR generator floor missed (classes below floor): {floor_miss}")
        return 2
    if evaluations < 1 or distinct_nt < 2:
        print("HARNESS-ERROR vacuous run")
        return 2
    return 0


if __name__ == "__main__":
    sys.exit(main())
