"""E5 - reference object model.

Pure functions from (installation, latest console state) to the expected value of
every public getter of AirTouch / AirConditioner / Zone.  Written from the
docstrings of pyairtouch/api.py and the vendor tables; translation tables are
re-stated here, not imported.  Enum members of the public API are referenced by
name (strings) and resolved by the comparison code.
"""

from __future__ import annotations

import datetime

from pav import console as con
from pav import refcodec as rc

AC_POWER = {"off": "OFF", "on": "ON", "away_off": "OFF_AWAY", "away_on": "ON_AWAY", "sleep": "SLEEP"}
SELECTED_MODE = {"auto": "AUTO", "heat": "HEAT", "dry": "DRY", "fan": "FAN", "cool": "COOL", "auto_heat": "AUTO", "auto_cool": "AUTO"}
ACTIVE_MODE = {"auto": "AUTO", "heat": "HEAT", "dry": "DRY", "fan": "FAN", "cool": "COOL", "auto_heat": "HEAT", "auto_cool": "COOL"}
_PLAIN_FAN = {"auto": "AUTO", "quiet": "QUIET", "low": "LOW", "medium": "MEDIUM", "high": "HIGH", "powerful": "POWERFUL", "turbo": "TURBO"}
SELECTED_FAN = dict(_PLAIN_FAN, **{f"ia_{k}": "INTELLIGENT_AUTO" for k in ("quiet", "low", "medium", "high", "powerful", "turbo")})
ACTIVE_FAN = dict(_PLAIN_FAN, **{f"ia_{k}": _PLAIN_FAN[k] for k in ("quiet", "low", "medium", "high", "powerful", "turbo")})
MODE_NAMES = {"auto": "AUTO", "heat": "HEAT", "dry": "DRY", "fan": "FAN", "cool": "COOL"}
FAN_NAMES = dict(_PLAIN_FAN, intelligent_auto="INTELLIGENT_AUTO")
ZONE_POWER = {"off": "OFF", "on": "ON", "turbo": "TURBO"}


def timer_value(t):
    return None if t["disabled"] else datetime.time(hour=t["hour"], minute=t["minute"])


def expected_zone(gen: int, name: str, z) -> dict:
    """z: zone state dict (console vocabulary) or None if no status was ever sent."""
    e = {"zone_id": z["number"], "name": name,
         "power_state": ZONE_POWER[z["power"]],
         "control_method": "TEMPERATURE" if z["method"] == "temperature" else "DAMPER",
         "has_temp_sensor": z["sensor"],
         "sensor_battery_status": "LOW" if z["low_battery"] else "NORMAL",
         "current_damper_percentage": z["percent"],
         "spill_active": z["spill"],
         "target_temperature_resolution": 1.0 if gen == 4 else 0.1}
    if gen == 4:
        e["supported_power_states"] = {"OFF", "ON"} | ({"TURBO"} if z["turbo_support"] else set())
        e["current_temperature"] = None if (not z["sensor"] or z["temp_raw"] is None) else rc.temp_from_raw(z["temp_raw"])
        e["target_temperature"] = z["setpoint_raw"] if z["sensor"] else None
    else:
        e["supported_power_states"] = {"OFF", "ON", "TURBO"}
        e["current_temperature"] = None if (not z["sensor"] or z["temp_raw"] is None or z["temp_raw"] > 2000) \
            else rc.temp_from_raw(z["temp_raw"])
        e["target_temperature"] = None if z["setpoint_raw"] is None else rc.sp5_from_raw(z["setpoint_raw"])
    return e


def expected_ac(gen: int, desc, a, timers, zone_ids) -> dict:
    e = {"ac_id": desc["number"], "name": desc["name"],
         "supported_modes": {MODE_NAMES[m] for m in desc["modes"]},
         "supported_fan_speeds": {FAN_NAMES[f] for f in desc["fans"]},
         "supported_power_controls": {"TOGGLE", "TURN_OFF", "TURN_ON"} | ({"SET_TO_AWAY", "SET_TO_SLEEP"} if gen == 5 else set()),
         "power_state": AC_POWER[a["power"]],
         "selected_mode": SELECTED_MODE[a["mode"]], "active_mode": ACTIVE_MODE[a["mode"]],
         "selected_fan_speed": SELECTED_FAN[a["fan"]], "active_fan_speed": ACTIVE_FAN[a["fan"]],
         "current_temperature": rc.temp_from_raw(a["temp_raw"]),
         "target_temperature_resolution": 1.0 if gen == 4 else 0.1,
         "zones": list(zone_ids),
         "timer:ON_TIMER": timer_value(timers["on"]), "timer:OFF_TIMER": timer_value(timers["off"]),
         "error_code": a["error_code"]}
    if gen == 4:
        e["target_temperature"] = a["setpoint_raw"]
        e["min_target_temperature"], e["max_target_temperature"] = desc["min_sp"], desc["max_sp"]
        e["spill_state"] = {"SPILL"} if a["spill"] else {"NONE"}
    else:
        e["target_temperature"] = rc.sp5_from_raw(a["setpoint_raw"])
        if a["mode"] == "heat":
            lo, hi = desc["min_heat"], desc["max_heat"]
        elif a["mode"] == "cool":
            lo, hi = desc["min_cool"], desc["max_cool"]
        else:
            lo, hi = min(desc["min_heat"], desc["min_cool"]), max(desc["max_heat"], desc["max_cool"])
        e["min_target_temperature"], e["max_target_temperature"] = lo, hi
        if a["spill"] and a["bypass"]:
            e["spill_state"] = {"SPILL", "BYPASS"}   # the documents are silent: either accepted
        elif a["spill"]:
            e["spill_state"] = {"SPILL"}
        elif a["bypass"]:
            e["spill_state"] = {"BYPASS"}
        else:
            e["spill_state"] = {"NONE"}
    return e


DEFAULT_TIMER = {"on": {"disabled": True, "hour": 0, "minute": 0}, "off": {"disabled": True, "hour": 0, "minute": 0}}


def expected_model(inst, state) -> dict:
    """Expected getters of the whole object model for a console state."""
    gen = inst["gen"]
    zs = con.zones_of(inst)
    mp = con.mapping(inst)
    out = {"acs": {}, "zones": {}}
    for a in inst["acs"]:
        n = a["number"]
        st_ = state["acs"].get(str(n))
        if st_ is None:
            continue
        out["acs"][n] = expected_ac(gen, a, st_, state["timers"].get(str(n), DEFAULT_TIMER), mp[n])
    for z, name in zs.items():
        zst = state["zones"].get(str(z))
        if zst is not None:
            out["zones"][z] = expected_zone(gen, name, zst)
    return out


# ------------------------------------------------------------------------- reading the real objects


def read_zone(z) -> dict:
    return {"zone_id": z.zone_id, "name": z.name, "supported_power_states": {p.name for p in z.supported_power_states},
            "power_state": z.power_state.name, "control_method": z.control_method.name, "has_temp_sensor": z.has_temp_sensor,
            "sensor_battery_status": z.sensor_battery_status.name, "current_temperature": z.current_temperature,
            "target_temperature": z.target_temperature, "target_temperature_resolution": z.target_temperature_resolution,
            "current_damper_percentage": z.current_damper_percentage, "spill_active": z.spill_active}


def read_ac(ac, api) -> dict:
    ei = ac.error_info
    return {"ac_id": ac.ac_id, "name": ac.name,
            "supported_power_controls": {p.name for p in ac.supported_power_controls},
            "supported_modes": {m.name for m in ac.supported_modes},
            "supported_fan_speeds": {f.name for f in ac.supported_fan_speeds},
            "power_state": ac.power_state.name, "selected_mode": ac.selected_mode.name, "active_mode": ac.active_mode.name,
            "selected_fan_speed": ac.selected_fan_speed.name, "active_fan_speed": ac.active_fan_speed.name,
            "current_temperature": ac.current_temperature, "target_temperature": ac.target_temperature,
            "target_temperature_resolution": ac.target_temperature_resolution,
            "min_target_temperature": ac.min_target_temperature, "max_target_temperature": ac.max_target_temperature,
            "spill_state": ac.spill_state.name, "zones": [z.zone_id for z in ac.zones],
            "timer:ON_TIMER": ac.next_quick_timer(api.AcTimerType.ON_TIMER),
            "timer:OFF_TIMER": ac.next_quick_timer(api.AcTimerType.OFF_TIMER),
            "error_code": None if ei is None else ei.code, "error_description": None if ei is None else ei.description}


def compare_entity(kind: str, ident, got: dict, exp: dict) -> list:
    """List of (attribute, got, expected) differences."""
    diffs = []
    for k, ev in exp.items():
        gv = got.get(k)
        if k == "spill_state":
            if gv not in ev:
                diffs.append((k, gv, sorted(ev)))
        elif k == "error_code":
            want = None if ev == 0 else ev
            if gv != want:
                diffs.append(("error_info.code", gv, want))
        elif k == "zones":
            if sorted(gv) != sorted(ev):
                diffs.append((k, gv, ev))
        elif gv != ev:
            diffs.append((k, gv, ev))
    return diffs
