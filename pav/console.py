"""E4 - simulated AirTouch 4 / AirTouch 5 console.

Holds an installation (ACs with ability bitmaps, limits, names; zones with names;
zone->AC mapping in AT4-new (bitmap), AT4-old (single AC / start+count) or AT5
(start+count, zero zones) form) and a mutable state.  It parses client bytes with
the independent stream parser (pav.refproto), records every request with its
virtual timestamp, and answers - with frames written by the independent console
writer (pav.refcodec) - according to a behaviour script.

Everything is plain data (dict/list) so that cases serialise to JSON.
"""

from __future__ import annotations

import copy

from hypothesis import strategies as st

from pav import refcodec as rc
from pav import refproto

STEPS = ["version_req", "names_req", "ability_req", "ac_status_req", "timer_status_req", "zone_status_req"]

# ------------------------------------------------------------------------- generation

_NAME_CHARS = st.characters(min_codepoint=0x20, max_codepoint=0x2FFF, exclude_categories=("Cs",))


def _fit(nbytes):
    def f(s: str) -> str:
        b = s.encode("utf-8")[:nbytes]
        return b.decode("utf-8", "ignore")
    return f


def name_strategy(nbytes: int):
    return st.text(_NAME_CHARS, max_size=nbytes).map(_fit(nbytes))


MODES = list(rc.MODE_BITS)
FANS4 = list(rc.FAN_BITS4)
FANS5 = list(rc.FAN_BITS5)


@st.composite
def installation(draw, gen: int, *, max_acs: int = 4, force_zero_zones=None, common=False):
    """A self-consistent installation description."""
    n_ac = draw(st.integers(1, max_acs))
    if gen == 4:
        ac_numbers = sorted(draw(st.sets(st.integers(0, 3), min_size=n_ac, max_size=n_ac)))
    else:
        ac_numbers = sorted(draw(st.sets(st.one_of(st.integers(0, 3), st.integers(0, 15)), min_size=n_ac, max_size=n_ac)))
    form = draw(st.sampled_from(["bitmap", "bitmap", "old"])) if gen == 4 else "range"
    zero = (gen == 5 and draw(st.integers(0, 9)) == 0) if force_zero_zones is None else force_zero_zones
    if gen == 4 and form == "bitmap":
        zone_ids = sorted(draw(st.sets(st.integers(0, 15), min_size=0, max_size=16)))
    else:
        nz = 0 if zero else draw(st.integers(0 if gen == 4 else 1, 16))
        zone_ids = list(range(nz))
    zones = {z: draw(name_strategy(8 if gen == 4 else 24)) for z in zone_ids}
    acs = []
    # partition for range forms
    cuts = None
    if form in ("old", "range"):
        nz = len(zone_ids)
        cuts = sorted(draw(st.lists(st.integers(0, nz), min_size=len(ac_numbers) - 1, max_size=len(ac_numbers) - 1)))
        cuts = [0] + cuts + [nz]
    for i, n in enumerate(ac_numbers):
        a = {"number": n, "name": draw(name_strategy(16)),
             "modes": sorted(draw(st.sets(st.sampled_from(MODES)))),
             "fans": sorted(draw(st.sets(st.sampled_from(FANS4 if gen == 4 else FANS5))))}
        if gen == 4:
            lo = draw(st.integers(0, 63))
            a["min_sp"], a["max_sp"] = lo, draw(st.integers(lo, 63))
            if form == "bitmap":
                a["groups"] = sorted(draw(st.sets(st.sampled_from(zone_ids)))) if zone_ids else []
                a["start"], a["count"] = draw(st.integers(0, 15)), draw(st.integers(0, 16))
            else:
                a["groups"] = None
                if len(ac_numbers) == 1:
                    a["start"], a["count"] = draw(st.integers(0, 15)), draw(st.integers(0, 16))  # ignored (4:349)
                else:
                    a["start"], a["count"] = cuts[i], cuts[i + 1] - cuts[i]
        else:
            if common:
                lo = draw(st.integers(10, 35))
                hi = draw(st.integers(lo, 35))
                a.update(min_cool=lo, max_cool=hi, min_heat=lo, max_heat=hi)
            else:
                lo_c = draw(st.integers(10, 35))
                lo_h = draw(st.integers(10, 35))
                a.update(min_cool=lo_c, max_cool=draw(st.integers(lo_c, 35)), min_heat=lo_h, max_heat=draw(st.integers(lo_h, 35)))
            a["start"], a["count"] = cuts[i], cuts[i + 1] - cuts[i]
        acs.append(a)
    sep = "|" if gen == 4 else ","
    vtxt = st.text(st.characters(min_codepoint=0x21, max_codepoint=0x7E, exclude_characters=sep), min_size=1, max_size=10)
    version = {"update": draw(st.booleans()), "versions": draw(st.lists(vtxt, min_size=1, max_size=2))}
    # wire order of the records in the names and ability answers: every record carries its own number, so any order
    # is legal (ascending two times out of three)
    names_order = list(zone_ids)
    ability_order = list(ac_numbers)
    if draw(st.integers(0, 2)) == 0:
        names_order = list(draw(st.permutations(zone_ids)))
        ability_order = list(draw(st.permutations(ac_numbers)))
    return {"gen": gen, "form": form, "acs": acs, "zones": {str(k): v for k, v in zones.items()}, "version": version,
            "zero_zones": bool(gen == 5 and not zones), "names_order": names_order, "ability_order": ability_order}


def zones_of(inst) -> dict:
    return {int(k): v for k, v in inst["zones"].items()}


def mapping(inst) -> dict:
    """AC number -> list of zone ids, by the documents' rule."""
    zs = sorted(zones_of(inst))
    out = {}
    for a in inst["acs"]:
        if inst["gen"] == 4:
            if a["groups"] is not None:
                out[a["number"]] = sorted(a["groups"])          # 4:372-391 (group display option)
            elif len(inst["acs"]) == 1:
                out[a["number"]] = list(zs)                     # 4:349 "If one AC only ... all groups belong to this AC"
            else:
                out[a["number"]] = list(range(a["start"], a["start"] + a["count"]))
        else:
            out[a["number"]] = list(range(a["start"], a["start"] + a["count"]))  # 5:428-429
    return out


def ac_state_strategy(gen: int, number: int, *, common=False):
    if gen == 4:
        return st.fixed_dictionaries({
            "number": st.just(number), "power": st.sampled_from(["off", "on"]),
            "mode": st.sampled_from(["auto", "heat", "dry", "fan", "cool"] + ([] if common else ["auto_heat", "auto_cool"])),
            "fan": st.sampled_from(FANS4), "spill": st.booleans(), "timer_set": st.booleans(),
            "setpoint_raw": st.integers(10, 35) if common else st.integers(0, 63),
            "temp_raw": st.integers(40, 90).map(lambda v: v * 10) if common else st.one_of(st.integers(0, 2039), st.just(500), st.just(780)),
            "error_code": st.one_of(st.just(0), st.just(0), st.integers(1, 65535))})
    fans = FANS4 if common else list(rc.INV(rc.FAN5_STATUS))
    return st.fixed_dictionaries({
        "number": st.just(number),
        "power": st.sampled_from(["off", "on"] if common else ["off", "on", "away_off", "away_on", "sleep"]),
        "mode": st.sampled_from(["auto", "heat", "dry", "fan", "cool"] + ([] if common else ["auto_heat", "auto_cool"])),
        "fan": st.sampled_from(fans),
        "setpoint_raw": st.integers(10, 35).map(lambda v: v * 10 - 100) if common else st.integers(0, 250),
        "turbo": st.just(False) if common else st.booleans(), "bypass": st.just(False) if common else st.booleans(),
        "spill": st.booleans(), "timer_set": st.booleans(),
        "temp_raw": st.integers(40, 90).map(lambda v: v * 10) if common else st.one_of(st.integers(0, 2000), st.just(500), st.just(730)),
        "error_code": st.one_of(st.just(0), st.just(0), st.integers(1, 65535))})


def zone_state_strategy(gen: int, number: int, *, common=False):
    if gen == 4:
        return st.fixed_dictionaries({
            "number": st.just(number), "power": st.sampled_from(["off", "on", "turbo"]),
            "method": st.sampled_from(["damper", "temperature"]), "percent": st.integers(0, 100),
            "low_battery": st.booleans(), "turbo_support": st.just(True) if common else st.booleans(),
            "setpoint_raw": st.integers(10, 35) if common else st.integers(0, 63), "sensor": st.booleans(),
            "temp_raw": st.integers(40, 90).map(lambda v: v * 10) if common else st.one_of(st.none(), st.integers(0, 2039), st.just(500)),
            "spill": st.booleans()})
    return st.fixed_dictionaries({
        "number": st.just(number), "power": st.sampled_from(["off", "on", "turbo"]),
        "method": st.sampled_from(["damper", "temperature"]), "percent": st.integers(0, 100),
        "setpoint_raw": st.integers(10, 35).map(lambda v: v * 10 - 100) if common else st.one_of(st.none(), st.integers(0, 250)),
        "sensor": st.booleans(),
        "temp_raw": st.integers(40, 90).map(lambda v: v * 10) if common else st.one_of(st.none(), st.integers(0, 2000), st.just(500)),
        "spill": st.booleans(), "low_battery": st.booleans()})


timer_strategy = st.fixed_dictionaries({
    "on": st.fixed_dictionaries({"disabled": st.booleans(), "hour": st.integers(0, 23), "minute": st.integers(0, 59)}),
    "off": st.fixed_dictionaries({"disabled": st.booleans(), "hour": st.integers(0, 23), "minute": st.integers(0, 59)})})


@st.composite
def full_state(draw, inst, *, common=False):
    gen = inst["gen"]
    return {
        "acs": {str(a["number"]): draw(ac_state_strategy(gen, a["number"], common=common)) for a in inst["acs"]},
        "zones": {str(z): draw(zone_state_strategy(gen, z, common=common)) for z in zones_of(inst)},
        "timers": {str(a["number"]): draw(timer_strategy) for a in inst["acs"]},
    }


# ------------------------------------------------------------------------- frames


def ext_from(gen):  # address the console uses for extended messages (4:113, 5:115)
    return 0x90


class Writer:
    """Builds console->client frames for an installation/state."""

    def __init__(self, inst) -> None:
        self.inst = inst
        self.gen = inst["gen"]
        self.pid = 0

    def frame(self, mtype: int, data: bytes, *, to=0xB0, frm=None, pid=None) -> bytes:
        if frm is None:
            frm = 0x90 if mtype == 0x1F else 0x80
        if pid is None:
            self.pid = (self.pid + 1) % 256
            pid = self.pid
        return refproto.frame(self.gen, to, frm, pid, mtype, data)

    # -- answers ---------------------------------------------------------------
    def version(self, ver=None, **kw) -> bytes:
        v = ver or getattr(self, "current_version", None) or self.inst["version"]
        return self.frame(0x1F, rc.write_version(v["update"], v["versions"], "|" if self.gen == 4 else ","), **kw)

    def names(self, **kw) -> bytes:
        zs = zones_of(self.inst)
        order = self.inst.get("names_order")
        if order is not None:
            zs = {z: zs[z] for z in order}
        if self.gen == 4:
            return self.frame(0x1F, rc.write4_group_names(zs), **kw)
        if not zs:
            return self.frame(0x1F, b"\xff\x13", **kw)  # docs/design.md: request echoed back to the client
        return self.frame(0x1F, rc.write5_zone_names(zs), **kw)

    def ability(self, **kw) -> bytes:
        acs = []
        by_number = {a["number"]: a for a in self.inst["acs"]}
        for a in [by_number[n] for n in self.inst.get("ability_order") or list(by_number)]:
            d = dict(a)
            d["modes"], d["fans"] = set(a["modes"]), set(a["fans"])
            if self.gen == 4:
                d["groups"] = None if a["groups"] is None else set(a["groups"])
            acs.append(d)
        return self.frame(0x1F, rc.write4_ability(acs) if self.gen == 4 else rc.write5_ability(acs), **kw)

    def ac_status(self, recs, *, stride=10, tail=b"\x80\x00", **kw) -> bytes:
        if self.gen == 4:
            return self.frame(0x2D, rc.write4_ac_status(recs), **kw)
        return self.frame(0xC0, rc.write5_ac_status(recs, stride=stride, tail=tail), **kw)

    def zone_status(self, recs, *, stride=8, **kw) -> bytes:
        if self.gen == 4:
            return self.frame(0x2B, rc.write4_group_status(recs), **kw)
        if not recs and not zones_of(self.inst):
            return self.frame(0xC0, bytes([0x21, 0, 0, 0, 0, 0, 0, 0]), **kw)  # echoed request (zero zones)
        return self.frame(0xC0, rc.write5_zone_status(recs, stride=stride, tail=b"\xaa" * 8), **kw)

    def timer_status(self, timers: dict, **kw) -> bytes:
        t = {int(k): v for k, v in timers.items()}
        if self.gen == 4:
            return self.frame(0x37, rc.write4_timer_status(t), **kw)
        return self.frame(0xC0, rc.write5_timer_status(t), **kw)

    def error_info(self, ac: int, text, **kw) -> bytes:
        return self.frame(0x1F, rc.write_error_info(ac, text), **kw)

    def unknown(self, which: int, **kw) -> bytes:
        which %= 4
        if which == 0:
            return self.frame(0x5A if self.gen == 4 else 0x7B, bytes([1, 2, 3, which]), **kw)          # unknown type
        if which == 1:
            return self.frame(0x1F, b"\xff\x77" + bytes([9, 9]), **kw)                                   # unknown ext sub id
        if which == 2 and self.gen == 5:
            return self.frame(0xC0, rc.c0(0x45, b"\x01", [b"\x02\x03"]), **kw)                           # unknown 0xC0 sub type
        return self.frame(0x1F, b"\xff\x31" + b"xyz", **kw)


class Console:
    """The scripted peer.  Attach to a FakeNet; one instance per generated case."""

    def __init__(self, net, inst, state, behaviour=None) -> None:
        self.net = net
        self.loop = net.loop
        self.inst = inst
        self.gen = inst["gen"]
        self.state = copy.deepcopy(state)
        self.w = Writer(inst)
        self.behaviour = behaviour or {}
        self.requests: list = []   # (t, cid, kind, payload, frame)
        self.sent: list = []       # (t, cid, label, frame bytes)
        self.rx: dict = {}
        self.bad_rx: list = []
        self.error_text: dict = {}      # ac -> text | None ; answer to error requests
        self.error_mode = "text"        # text | empty | silent
        self.silent = False
        self.auto = True                # answer requests automatically
        self.apply_commands = False
        self.step_count: dict = {}
        self.outq: dict = {}
        self.timers: list = []
        self.pumping: dict = {}
        self.on_deliver = None
        self.on_request = None
        net.on_accept = self._accept
        net.on_data = self._data

    # -- plumbing ----------------------------------------------------------------
    def _accept(self, tr) -> None:
        self.rx[tr.cid] = bytearray()

    def _data(self, tr, data: bytes) -> None:
        buf = self.rx.setdefault(tr.cid, bytearray())
        buf += data
        pr = refproto.parse_stream(self.gen, bytes(buf))
        if pr.error:
            self.bad_rx.append((self.loop.time(), tr.cid, pr.error, bytes(buf)))
            buf.clear()
            return
        for fr in pr.frames:
            kind, payload = rc.read_client_frame(self.gen, fr.mtype, fr.data)
            self.requests.append((self.loop.time(), tr.cid, kind, payload, fr))
            if self.on_request is not None:
                self.on_request(kind, payload)
            if self.auto and not self.silent:
                self._answer(tr, kind, payload, fr)
        del buf[:pr.consumed]

    def feed(self, tr, frame: bytes, *, delay: float = 0.0, cuts=(), label="") -> None:
        """Deliver a frame to the client (optionally later, optionally in segments).

        Frames leave in the order they were queued (per connection); every segment
        is delivered in its own loop iteration.
        """
        pts = sorted({c % len(frame) for c in cuts if c % len(frame)}) + [len(frame)]
        segs, pos = [], 0
        for c in pts:
            segs.append(frame[pos:c])
            pos = c

        def enqueue():
            if not tr.alive:
                return
            q = self.outq.setdefault(tr.cid, [])
            q.append(("mark", label, frame))
            q.extend(("seg", s, None) for s in segs)
            if not self.pumping.get(tr.cid):
                self.pumping[tr.cid] = True
                self.loop.call_soon(self._pump, tr)
        if delay > 0:
            self.timers.append(self.loop.call_later(delay, enqueue))
        else:
            enqueue()

    def cancel_all(self) -> None:
        """Stop everything the console still has in flight (harness-owned timers)."""
        self.silent = True
        for h in self.timers:
            h.cancel()
        self.timers.clear()
        for q in self.outq.values():
            q.clear()

    def release(self) -> None:
        """End a hold: frames queued meanwhile leave now (in order)."""
        self.hold = False
        for tr in self.net.conns:
            if self.outq.get(tr.cid) and not self.pumping.get(tr.cid) and tr.alive:
                self.pumping[tr.cid] = True
                self.loop.call_soon(self._pump, tr)

    def _pump(self, tr) -> None:
        if getattr(self, "hold", False):
            # the harness is delivering a frame by hand (in two segments): nothing may be interleaved into it
            self.pumping[tr.cid] = False
            return
        q = self.outq.get(tr.cid, [])
        while q and q[0][0] == "mark":
            _, label, frame = q.pop(0)
            self.sent.append((self.loop.time(), tr.cid, label, frame))
            if self.on_deliver is not None:
                self.on_deliver(label)
        if q and tr.alive:
            _, seg, _ = q.pop(0)
            tr.feed(seg)
        if q and tr.alive:
            self.loop.call_soon(self._pump, tr)
        else:
            self.pumping[tr.cid] = False
            if not tr.alive:
                q.clear()

    # -- answers -----------------------------------------------------------------
    def answer_frame(self, kind: str, payload, fr):
        st_ = self.state
        if kind == "version_req":
            return self.w.version(pid=fr.pid)
        if kind == "names_req":
            return self.w.names(pid=fr.pid)
        if kind == "ability_req":
            return self.w.ability(pid=fr.pid)
        if kind == "ac_status_req":
            return self.w.ac_status(list(st_["acs"].values()), pid=fr.pid)
        if kind == "timer_status_req":
            return self.w.timer_status(st_["timers"], pid=fr.pid)
        if kind == "zone_status_req":
            return self.w.zone_status(list(st_["zones"].values()), pid=fr.pid)
        if kind == "error_req":
            if self.error_mode == "silent":
                return None
            text = self.error_text.get(payload) if self.error_mode == "text" else None
            return self.w.error_info(payload, text, pid=fr.pid)
        return None

    def _answer(self, tr, kind, payload, fr) -> None:
        n = self.step_count.get(kind, 0)
        self.step_count[kind] = n + 1
        beh = self.behaviour.get(kind)
        spec = {}
        if beh:
            spec = beh[n] if n < len(beh) else {}
        if spec.get("silent"):
            self.silent = True
            return
        delay = spec.get("delay", 0.0)

        def deliver():
            # frames are built when they are sent: they carry the console's state of that instant
            if self.silent and not spec.get("force"):
                return
            for ex in spec.get("before", ()):
                f, what = self.extra_frame(ex)
                self.feed(tr, f, label=f"extra:{what}")
            frame = self.answer_frame(kind, payload, fr)
            if frame is not None and not spec.get("skip"):
                self.feed(tr, frame, cuts=spec.get("cuts", ()), label=f"answer:{kind}")
            for ex in spec.get("after", ()):
                f, what = self.extra_frame(ex)
                self.feed(tr, f, label=f"extra:{what}")
        if delay > 0:
            self.timers.append(self.loop.call_later(delay, deliver))
        else:
            deliver()

    def extra_frame(self, ex):
        """ex = [kind, arg] -> (frame, kind actually produced)"""
        what, arg = ex[0], ex[1] if len(ex) > 1 else 0
        if self.gen == 5 and not zones_of(self.inst) and what in ("zone_status", "names"):
            what = "unknown"
        return self._extra_frame(what, arg), what

    def _extra_frame(self, what, arg) -> bytes:
        st_ = self.state
        if what == "ac_status":
            return self.w.ac_status(list(st_["acs"].values()))
        if what == "zone_status":
            return self.w.zone_status(list(st_["zones"].values()))
        if what == "timer_status":
            return self.w.timer_status(st_["timers"])
        if what == "version":
            return self.w.version()
        if what == "names":
            return self.w.names()
        if what == "ability":
            return self.w.ability()
        if what == "unknown":
            return self.w.unknown(arg)
        if what == "foreign":
            # a frame addressed to another client (incl. a request echo with a foreign address)
            sel = arg % 3
            if sel == 0:
                return self.w.frame(0x1F, b"\xff\x13" if self.gen == 5 else b"\xff\x12", to=0xB1)
            if sel == 1:
                return self.w.frame(0xC0 if self.gen == 5 else 0x2B,
                                    bytes([0x21, 0, 0, 0, 0, 0, 0, 0]) if self.gen == 5 else b"", to=0xB3)
            return self.w.frame(0x1F, b"\xff\x30", to=0xB2)
        if what == "error_info":
            acs = [a["number"] for a in self.inst["acs"]]
            return self.w.error_info(acs[arg % len(acs)], None)
        raise ValueError(what)

    # -- observations ------------------------------------------------------------
    def kinds(self, since: int = 0):
        return [r[2] for r in self.requests[since:]]
