"""E2 - scripted TCP and UDP for the virtual loop.

`FakeNet.open_connection` replaces `asyncio.open_connection` (see `install()`).
An accepted connection is a genuine `asyncio.StreamReader` /
`StreamReaderProtocol` / `StreamWriter` wired to a `FakeTransport` that mirrors
the semantics of CPython's `_SelectorSocketTransport`:

* `write()` after the transport started closing is dropped;
* a fatal error marks the transport closing and calls
  `protocol.connection_lost(exc)` through `call_soon` (so `drain()` raises exactly
  as on a real socket);
* `close()` -> `connection_lost(None)` through `call_soon`;
* peer EOF -> `protocol.eof_received()`; the stream protocol keeps the transport
  open for writing (half-closed), exactly like the real one;
* `pause_writing()/resume_writing()` make `drain()` really block.

Every event is logged with its virtual timestamp in `FakeNet.log`.
"""

from __future__ import annotations

import asyncio
import sys
import collections
from typing import Callable, Optional

_CURRENT: list = [None]


async def _patched_open_connection(host=None, port=None, **kw):
    net = _CURRENT[0]
    if net is None:
        raise OSError("pav.fakenet: no FakeNet installed")
    return await net.open_connection(host=host, port=port, **kw)


def install() -> None:
    """Patch asyncio.open_connection (process-wide, idempotent)."""
    if asyncio.open_connection is not _patched_open_connection:
        asyncio.open_connection = _patched_open_connection  # type: ignore[assignment]
        asyncio.streams.open_connection = _patched_open_connection  # type: ignore[attr-defined]


class InjectedWriteError(ConnectionResetError):
    pass


class FakeTransport(asyncio.Transport):
    def __init__(self, net: "FakeNet", protocol, cid: int) -> None:
        super().__init__()
        self.net = net
        self.loop = net.loop
        self.protocol = protocol
        self.cid = cid
        self._closing = False
        self._conn_lost = 0
        self._lost_called = False
        self.closed_by: Optional[str] = None
        self._writes: list[tuple[float, bytes]] = []
        # A selector transport that cannot hand bytes to the kernel at once (peer not reading) appends the *object* it was
        # given to its buffer, not a copy (selector_events.write: `self._buffer.append(data)`).  While this connection is
        # congested (net.slow_peer, back-pressure armed or writing paused) mutable objects are therefore kept by reference
        # and read again when the buffer is flushed: what the peer receives is their content at that time.
        self._held: list[tuple[int, object]] = []
        self.late_writes: list[tuple[float, bytes]] = []   # write() calls made after the connection was closed / lost
        self.rx_log = bytearray()  # every byte delivered to the client on this connection
        self.fail_after: Optional[int] = None  # fail the n-th write from now (1-based)
        self.black_hole = False
        self.write_paused = False
        self.fail_at_byte: Optional[int] = None  # fail the write that would carry the stream beyond this many bytes
        self._tx_count = 0
        self.pause_after: Optional[int] = None  # back-pressure: pause writing once the n-th write from now was taken
        self._read_paused = False
        self._eof_seen = False
        self._pending_rx: list[bytes] = []
        self.opened_at = self.loop.time()
        self.closed_at: Optional[float] = None

    # -- asyncio.Transport API (client side) ----------------------------------
    def is_closing(self) -> bool:
        return self._closing

    def get_extra_info(self, name, default=None):
        return default

    def set_write_buffer_limits(self, high=None, low=None):
        pass

    def get_write_buffer_size(self):
        return 0

    def pause_reading(self):
        self._read_paused = True

    def resume_reading(self):
        self._read_paused = False
        pend, self._pending_rx = self._pending_rx, []
        for d in pend:
            self.feed(d)

    def is_reading(self):
        return not self._read_paused and not self._closing

    def can_write_eof(self):
        return True

    def write_eof(self):
        pass

    def write(self, data) -> None:
        if self._conn_lost:
            # like a selector transport: the bytes are dropped (and counted); they are remembered for checks that judge
            # "nothing is written after shutdown", where handing bytes to a connection that is gone is still a write
            self._conn_lost += 1
            if data:
                self.late_writes.append((self.loop.time(), bytes(data)))
                self.net._event("late_write", self.cid, bytes(data))
            return
        if not data:
            return
        if self.fail_at_byte is not None and self._tx_count + len(data) > self.fail_at_byte:
            # the connection dies once `fail_at_byte` bytes have been taken: the write that would cross that offset
            # fails (independent of how the client cuts its frames into write calls)
            self.fail_at_byte = None
            self.net._event("write_fault", self.cid)
            self._fatal(InjectedWriteError("injected write error"), who="fault")
            return
        if self.fail_after is not None:
            self.fail_after -= 1
            if self.fail_after <= 0:
                self.fail_after = None
                self.net._event("write_fault", self.cid)
                self._fatal(InjectedWriteError("injected write error"), who="fault")
                return
        b = bytes(data)
        now = self.loop.time()
        self._tx_count += len(b)
        self._writes.append((now, b))
        if type(data) is not bytes and (self.net.slow_peer or self.write_paused or self.pause_after is not None):
            self._held.append((len(self._writes) - 1, data))
        self.net._event("tx", self.cid, b)
        if self.net.on_data is not None and not self.black_hole:
            self.net.on_data(self, b)
        if self.pause_after is not None:
            # a selector transport calls protocol.pause_writing() from inside write() when its buffer passes the
            # high-water mark (the peer has stopped reading): the bytes are taken, the next drain() blocks
            self.pause_after -= 1
            if self.pause_after <= 0:
                self.pause_after = None
                self.pause_writing()

    def close(self) -> None:
        if self._closing:
            return
        self._closing = True
        self._conn_lost += 1
        if self.closed_by is None:
            # StreamWriter.__del__ (Python >= 3.11.? / 3.12) closes a transport nobody closed: that is the interpreter's
            # finaliser cleaning up after the client, not the client closing the connection
            f, by_finalizer = sys._getframe(1), False
            for _ in range(3):
                if f is None:
                    break
                if f.f_code.co_name == "__del__":
                    by_finalizer = True
                    break
                f = f.f_back
            self.closed_by = "finalizer" if by_finalizer else "client"
            if by_finalizer:
                self.net.finalizer_closed.append(self.cid)
        lat = self.net.close_latency
        if lat > 0:
            # a close that has to wait (unsent data still buffered): connection_lost is reported later
            self.loop.call_later(lat, self._call_connection_lost, None)
        else:
            self.loop.call_soon(self._call_connection_lost, None)

    def abort(self) -> None:
        self._fatal(None, who="client")

    # -- internals --------------------------------------------------------------
    def _fatal(self, exc, who: str) -> None:
        if self._conn_lost:
            return
        self._closing = True
        self._conn_lost += 1
        self.closed_by = self.closed_by or who
        self.loop.call_soon(self._call_connection_lost, exc)

    def _call_connection_lost(self, exc) -> None:
        if self._lost_called:
            return
        self._lost_called = True
        self.closed_at = self.loop.time()
        self.net._closed(self)
        self.protocol.connection_lost(exc)

    # -- console side ---------------------------------------------------------
    @property
    def alive(self) -> bool:
        return not self._closing

    def feed(self, data: bytes) -> None:
        """Bytes arriving from the console (one TCP segment)."""
        if self._closing or not data or self._eof_seen:
            return
        if self._read_paused:
            self._pending_rx.append(bytes(data))
            return
        self.net._event("rx", self.cid, bytes(data))
        self.rx_log += data
        self.protocol.data_received(bytes(data))

    def peer_eof(self) -> None:
        if self._closing:
            return
        self.net._event("peer_eof", self.cid)
        keep_open = self.protocol.eof_received()
        self._eof_seen = True
        if not keep_open:
            self.closed_by = self.closed_by or "peer"
            self.close()

    def peer_reset(self) -> None:
        if self._closing:
            return
        self.net._event("peer_reset", self.cid)
        if self._eof_seen:
            # After EOF a selector transport no longer reads from the socket: a
            # reset by the peer is only noticed by the next write.
            self.fail_after = 1
            return
        self._fatal(ConnectionResetError("injected peer reset"), who="peer")

    def fail_write(self, n: int = 1) -> None:
        self.fail_after = n

    def pause_writing(self) -> None:
        if not self.write_paused and not self._closing:
            self.write_paused = True
            self.net._event("pause", self.cid)
            self.protocol.pause_writing()

    def resume_writing(self) -> None:
        self._flush_held()
        if self.write_paused:
            self.write_paused = False
            self.net._event("resume", self.cid)
            self.protocol.resume_writing()

    @property
    def writes(self) -> list:
        """(time, bytes) per write() call, as the peer receives them (held references are read at flush time)."""
        self._flush_held()
        return self._writes

    def _flush_held(self) -> None:
        held, self._held = self._held, []
        for idx, ref in held:
            try:
                cur = bytes(ref)
            except (ValueError, BufferError):  # released memoryview
                cur = b""
            t, was = self._writes[idx]
            if cur != was:
                self._writes[idx] = (t, cur)
                self.net.altered.append({"cid": self.cid, "written_at": t, "was": was.hex(), "sent": cur.hex()})
                self.net._event("altered", self.cid, cur)

    def tx_bytes(self) -> bytes:
        return b"".join(b for _, b in self.writes)


class FakeNet:
    """The scripted network seen by one client on one virtual loop."""

    def __init__(self, loop) -> None:
        self.loop = loop
        self.log: list[tuple] = []
        self.conns: list[FakeTransport] = []
        self.open_conns: set[int] = set()
        self.max_open = 0
        self.attempts: list[tuple[float, str]] = []
        # entries: ("refuse", latency) | ("accept", latency) | ("hang",)
        self.script: collections.deque = collections.deque()
        self.default = ("accept", 0.0)
        self.on_accept: Optional[Callable[[FakeTransport], None]] = None
        self.on_data: Optional[Callable[[FakeTransport, bytes], None]] = None
        self.inflight = 0
        self.arm_on_accept: list = []   # write-fault positions to arm on the next accepted connections
        self.close_latency = 0.0         # virtual seconds between transport.close() and connection_lost
        self.finalizer_closed: list = []  # connections the client dropped without closing them (closed by StreamWriter.__del__)
        self.arm_bytes_on_accept: list = []   # byte offsets at which the next accepted connections die while being written to
        self.pause_on_accept: list = []  # back-pressure positions (n-th write) for the next accepted connections
        self.slow_peer = True            # peers take bytes late: transports keep written (mutable) objects by reference until flushed;
                                         # sound at any time (the kernel buffer may always be full) and inert for immutable bytes
        self.altered: list = []          # writes whose object was changed between write() and the flush
        _CURRENT[0] = self

    def _event(self, kind: str, *args) -> None:
        self.log.append((self.loop.time(), kind) + args)

    def _closed(self, tr: FakeTransport) -> None:
        self.open_conns.discard(tr.cid)
        self._event("closed", tr.cid, tr.closed_by)

    @property
    def current(self) -> Optional[FakeTransport]:
        """The most recent connection if it is still open."""
        if self.conns and self.conns[-1].cid in self.open_conns:
            return self.conns[-1]
        return None

    def live(self) -> list[FakeTransport]:
        return [c for c in self.conns if c.cid in self.open_conns]

    async def open_connection(self, host=None, port=None, **kw):
        entry = self.script.popleft() if self.script else self.default
        kind = entry[0]
        lat = entry[1] if len(entry) > 1 else 0.0
        self.attempts.append((self.loop.time(), kind, host, port))
        self._event("attempt", kind, lat)
        self.inflight += 1
        try:
            if kind == "hang":
                await asyncio.get_running_loop().create_future()
            if lat:
                await asyncio.sleep(lat)
            if kind == "refuse":
                raise ConnectionRefusedError("injected refuse")
            if kind == "timeout":
                raise TimeoutError("injected connect timeout")
            if kind == "unreachable":
                import errno
                raise OSError(errno.EHOSTUNREACH, "injected: No route to host")   # a plain OSError, no subclass
            if kind == "gaierror":
                import socket as _s
                raise _s.gaierror(-2, "injected name resolution failure")
        finally:
            self.inflight -= 1
        reader = asyncio.StreamReader(loop=self.loop)
        protocol = asyncio.StreamReaderProtocol(reader, loop=self.loop)
        cid = len(self.conns)
        tr = FakeTransport(self, protocol, cid)
        self.conns.append(tr)
        self.open_conns.add(cid)
        # connections the client is still holding (a transport it has asked to close no longer counts)
        self.max_open = max(self.max_open, sum(1 for c in self.conns if c.alive))
        self._event("open", cid)
        protocol.connection_made(tr)
        writer = asyncio.StreamWriter(tr, protocol, reader, self.loop)
        if self.on_accept is not None:
            self.on_accept(tr)
        if self.arm_on_accept:
            n = self.arm_on_accept.pop(0)
            if n:
                tr.fail_write(n)
        if self.arm_bytes_on_accept:
            nb = self.arm_bytes_on_accept.pop(0)
            if nb:
                tr.fail_at_byte = nb
        if self.pause_on_accept:
            n = self.pause_on_accept.pop(0)
            if n:
                tr.pause_after = n
        return reader, writer

    def heal(self) -> None:
        """Make the network behave: clear script and every armed fault."""
        self.script.clear()
        self.close_latency = 0.0
        self.arm_on_accept.clear()
        self.arm_bytes_on_accept.clear()
        self.pause_on_accept.clear()
        self.default = ("accept", 0.0)
        for c in self.conns:
            c.fail_after = None
            c.fail_at_byte = None
            c.pause_after = None
            c.black_hole = False
            if c.write_paused:
                c.resume_writing()


# ----------------------------------------------------------------------------- UDP


class FakeSock:
    """Recording stub for socket.socket as used by pyairtouch discovery."""

    instances: list = []

    def __init__(self, *a, **k) -> None:
        self.args = (a, k)
        self.opts: list = []
        self.bound = None
        self.closed = False
        FakeSock.instances.append(self)

    def setsockopt(self, *a) -> None:
        self.opts.append(a)

    def bind(self, addr) -> None:
        self.bound = addr

    def close(self) -> None:
        self.closed = True

    def fileno(self) -> int:
        return -1

    def setblocking(self, flag) -> None:
        pass


class FakeDatagramTransport(asyncio.DatagramTransport):
    def __init__(self, udp: "FakeUdp", protocol, sock) -> None:
        super().__init__()
        self.udp = udp
        self.protocol = protocol
        self.sock = sock
        self.closed = False
        self.eid = len(udp.endpoints)

    def sendto(self, data, addr=None) -> None:
        if self.closed:
            return
        host = addr[0] if addr else ""
        if host == "255.255.255.255" or host == "<broadcast>" or host.endswith(".255"):
            # the OS refuses a datagram to a broadcast address unless SO_BROADCAST is enabled on the socket (EACCES);
            # a selector datagram transport reports that through protocol.error_received and sends nothing
            enabled = any(len(o) >= 3 and o[1] == 6 and o[2] for o in getattr(self.sock, "opts", []))   # SO_BROADCAST == 6 in the stub
            if not enabled:
                self.udp.refused.append((self.udp.loop.time(), self.eid, addr))
                if hasattr(self.protocol, "error_received"):
                    self.protocol.error_received(PermissionError(13, "Permission denied (SO_BROADCAST not set)"))
                return
        self.udp.sent.append((self.udp.loop.time(), self.eid, bytes(data), addr))
        if self.udp.on_send is not None:
            self.udp.on_send(self, bytes(data), addr)

    def close(self) -> None:
        if self.closed:
            return
        self.closed = True
        self.udp.closed.append((self.udp.loop.time(), self.eid))
        self.udp.loop.call_soon(self.protocol.connection_lost, None)

    def abort(self) -> None:
        self.close()

    def is_closing(self) -> bool:
        return self.closed

    def get_extra_info(self, name, default=None):
        if name == "socket":
            return self.sock
        return default

    def deliver(self, data: bytes, addr) -> None:
        """Same exception semantics as a real `_SelectorDatagramTransport._read_ready`:
        `datagram_received` is called outside any try block, so an exception it
        raises propagates to the event loop's handle runner (reported to the loop's
        exception handler); the transport stays open."""
        if self.closed:
            return
        self.udp.delivered.append((self.udp.loop.time(), self.eid, bytes(data)))
        try:
            self.protocol.datagram_received(bytes(data), addr)
        except BaseException as exc:  # noqa: BLE001
            self.udp.fatal.append((self.udp.loop.time(), self.eid, repr(exc)))
            raise


class FakeUdp:
    def __init__(self, loop) -> None:
        self.loop = loop
        self.endpoints: list[FakeDatagramTransport] = []
        self.sent: list = []
        self.closed: list = []
        self.delivered: list = []
        self.fatal: list = []
        self.refused: list = []
        self.on_send = None
        loop.udp = self

    def create_endpoint(self, protocol_factory, sock):
        protocol = protocol_factory()
        tr = FakeDatagramTransport(self, protocol, sock)
        self.endpoints.append(tr)
        protocol.connection_made(tr)
        return tr, protocol

    def by_port(self, port: int) -> Optional[FakeDatagramTransport]:
        for e in self.endpoints:
            if e.sock is not None and e.sock.bound and e.sock.bound[1] == port:
                return e
        return None
