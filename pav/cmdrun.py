"""Executes public control calls on an initialised client and judges the outcome (C04, C11)."""

from __future__ import annotations

from hypothesis import strategies as st

from pav import cmdref, refproto
from pav import console as con
from pav.harness import Violation
from pav.rig import ApiRig

POWERS = ["TOGGLE", "TURN_OFF", "TURN_ON", "SET_TO_AWAY", "SET_TO_SLEEP"]
MODES = ["AUTO", "HEAT", "DRY", "FAN", "COOL"]
FANS = ["AUTO", "QUIET", "LOW", "MEDIUM", "HIGH", "POWERFUL", "TURBO", "INTELLIGENT_AUTO"]
ZPOWERS = ["OFF", "ON", "TURBO"]
TIMERS = ["ON_TIMER", "OFF_TIMER"]


class CmdRig:
    def __init__(self, cid: str, inst, state, rig=None) -> None:
        self.cid = cid
        self.inst, self.state = inst, state
        self.gen = inst["gen"]
        if rig is None:
            self.rig = ApiRig(inst, state)
            r = self.rig.run_init()
            if r != ("ok", True):
                raise Violation(f"{cid}:init", f"init() failed: {r!r}", {"inst": inst, "state": state, "calls": []})
            self.rig.loop.settle()
        else:
            self.rig = rig
        self.done: list = []
        self.last_frame = None

    def wire_pos(self):
        tr = self.rig.net.current
        return tr, len(tr.tx_bytes())

    def call(self, call, stats=None):
        """Run one call; raises Violation; returns class tags.

        The bytes the console receives are parsed as one continuous stream per connection: a call that leaves
        a partial frame behind (e.g. a header written before its payload failed to encode) makes the *next*
        frame unreadable for the console, which is charged to the call whose frame is damaged."""
        self.done.append(call)
        case = {"inst": self.inst, "state": self.state, "calls": list(self.done)}
        inbound = None
        if call[0] == "with_inbound":
            # the console is in the middle of sending a (repeated, unchanged) status report when the call is made: the
            # first `cut` bytes have arrived, the rest follows after the call
            w = self.rig.console.w
            st_ = self.rig.console.state
            fr = w.ac_status(list(st_["acs"].values())) if call[2] == "ac" or not st_["zones"] else w.zone_status(list(st_["zones"].values()))
            cut = 1 + call[1] % (len(fr) - 1)
            inbound = (fr[:cut], fr[cut:])
            call = call[3]

        def bad(key, what):
            raise Violation(f"{self.cid}:{key}:{call[0]}", f"{call}: {what}", case)

        wild = call[0] == "zone_temp_wild"
        exp = ("any",) if wild else cmdref.expected(self.inst, self.state, call)
        tr = self.rig.net.current
        if getattr(self, "_tr", None) is not tr:
            self._tr, self._upto = tr, len(tr.tx_bytes())
        else:
            # frames the client wrote on its own since the last call (error-info requests, heartbeats ...) are
            # skipped; anything that is not a whole frame stays in front of this call's bytes
            pre = refproto.parse_stream(self.gen, tr.tx_bytes()[self._upto:])
            if not pre.error:
                self._upto += pre.consumed
        if inbound:
            self.rig.console.hold = True   # the console finishes this frame before it sends anything else
            tr.feed(inbound[0])
            self.rig.loop.settle()
        res = self.rig.loop.call(cmdref.perform(self.rig, ["zone_temp"] + call[1:] if wild else call))
        self.rig.loop.settle()
        if inbound:
            tr.feed(inbound[1])
            self.rig.console.release()
            self.rig.loop.settle()
        if self.rig.net.current is not tr:
            bad("reset", "the call disturbed the connection" + (" (a status report was arriving in two segments around it)" if inbound else ""))
        new = tr.tx_bytes()[self._upto:]
        pr = refproto.parse_stream(self.gen, new)
        if wild:
            # a set-point outside the encodable range: raising (any exception) or sending is not judged here,
            # but what it leaves on the wire is carried over to the next call
            if not pr.error and not pr.incomplete:
                self._upto += pr.consumed
            self.last_frame = None
            return ["wild"]
        if pr.error or pr.incomplete:
            bad("framing", f"the console cannot read the bytes it received since the last complete frame: {new.hex()} "
                           f"(error={pr.error}, incomplete={pr.incomplete})")
        self._upto += pr.consumed
        self.last_frame = pr.frames[0] if len(pr.frames) == 1 else None
        if exp[0] == "ValueError":
            if res[0] != "raise" or not isinstance(res[1], ValueError):
                bad("not-refused", f"the console does not advertise/support this request, yet the call returned {res!r}")
            if pr.frames:
                bad("refused-but-sent", f"ValueError raised but {len(pr.frames)} frame(s) were transmitted")
            return ["refused"]
        if res[0] != "ok":
            bad("raised", f"an admissible request raised {res[1]!r}" if res[0] == "raise" else f"call did not complete: {res!r}")
        if len(pr.frames) != 1:
            bad("frame-count", f"{len(pr.frames)} frames transmitted for one accepted call")
        probs = cmdref.judge_frame(self.gen, exp, pr.frames[0])
        if probs:
            bad(probs[0][0], probs[0][1])
        fr = pr.frames[0]
        if self.gen == 4 and fr.mtype == 0x36 and len(fr.data) == 32 and call[0].startswith("timer_"):
            # AT4 timer control (undocumented, four 8-byte slots): whatever the slots of the ACs that are NOT addressed
            # should hold, it cannot depend on the calls made earlier - the console reported nothing new in between
            # (the memory is cleared when the console pushes a timer status)
            seen = self.__dict__.setdefault("_other_slots", {})
            for k in range(4):
                if k == call[1]:
                    continue
                slot = bytes(fr.data[8 * k:8 * k + 8])
                if k in seen and seen[k][0] != slot:
                    bad("history-dependent-frame", f"the slot of AC {k} (not addressed by this call) holds {slot.hex()}, but held "
                                                   f"{seen[k][0].hex()} in the timer-control frame of call {seen[k][1]} - the console "
                                                   f"reported nothing in between")
                seen.setdefault(k, (slot, list(call)))
        return ["accepted"]

    def console_reported(self):
        """Forget what earlier frames held for non-addressed entities (the console has just reported something)."""
        self.__dict__.pop("_other_slots", None)

    def dispose(self):
        self.rig.dispose()


def reachable_zones(inst):
    """Zones attached to at least one AC (the public API reaches zones through their AC)."""
    mp = con.mapping(inst)
    zs = set(con.zones_of(inst))
    return sorted({z for v in mp.values() for z in v} & zs)


def temp_grid(lo: float, hi: float):
    """Temperatures on a 0.05 degC grid from lo to hi (as floats k/20)."""
    return [k / 20.0 for k in range(int(lo * 20), int(hi * 20) + 1)]


# sub-minute part of a quick-timer value in milliseconds: whole minutes half of the time, otherwise anywhere in the
# minute with the ends (1 ms, 29.999 s, 30 s, 59.999 s) over-represented - the API documents truncation to the minute
_MILLIS = st.one_of(st.just(0), st.sampled_from([1, 29_999, 30_000, 30_001, 59_000, 59_999]), st.integers(0, 59_999))


def calls_strategy(inst, state):
    """One generated call on this installation."""
    gen = inst["gen"]
    ac_ids = [a["number"] for a in inst["acs"]]
    zone_ids = reachable_zones(inst)
    ac = st.sampled_from(ac_ids)
    opts = [
        st.tuples(ac, st.sampled_from(POWERS)).map(lambda t: ["ac_power", t[0], t[1]]),
        st.tuples(ac, st.sampled_from(MODES), st.booleans()).map(lambda t: ["ac_mode", t[0], t[1], t[2]]),
        st.tuples(ac, st.sampled_from(FANS)).map(lambda t: ["ac_fan", t[0], t[1]]),
        ac.flatmap(lambda n: st.integers(-60, 60).map(
            lambda k: ["ac_temp", n, _around(cmdref.ac_limits(inst, state, n), k)])),
        ac.flatmap(lambda n: st.integers(-300, 300).map(
            lambda k: ["ac_temp", n, _fine(cmdref.ac_limits(inst, state, n), k)])),
        st.tuples(ac, st.sampled_from(TIMERS), st.integers(0, 24 * 60 + 90), _MILLIS).map(lambda t: ["quick_duration", *t]),
        st.tuples(ac, st.sampled_from(TIMERS), st.integers(0, 23), st.integers(0, 59), _MILLIS).map(lambda t: ["timer_time", *t]),
        st.tuples(ac, st.sampled_from(TIMERS)).map(lambda t: ["timer_clear", t[0], t[1]]),
        st.just(["updates"]),
    ]
    if zone_ids:
        z = st.sampled_from(zone_ids)
        opts += [
            st.tuples(z, st.sampled_from(ZPOWERS)).map(lambda t: ["zone_power", t[0], t[1]]),
            st.tuples(z, st.integers(10 * 20, 35 * 20)).map(lambda t: ["zone_temp", t[0], t[1] / 20.0]),
            st.tuples(z, st.integers(1000, 3500)).map(lambda t: ["zone_temp", t[0], t[1] / 100.0]),
            st.tuples(z, st.integers(-5, 105)).map(lambda t: ["zone_damper", t[0], t[1]]),
            # a set-point far outside what either protocol can encode: not judged itself, but it must not
            # damage the frames of the calls that follow
            st.tuples(z, st.sampled_from([-30.0, -2.0, 36.0, 50.0, 300.0])).map(lambda t: ["zone_temp_wild", t[0], t[1]]),
        ]
    plain = st.one_of(*opts)
    # one call in six is made while a status report from the console is half received
    return st.one_of(plain, plain, plain, plain, plain,
                     st.tuples(st.integers(0, 400), st.sampled_from(["ac", "zone"]), plain).map(lambda t: ["with_inbound", *t]))


def _fine(limits, k):
    """A temperature on the 0.01 degC grid around the limits / inside the range (rounding direction matters)."""
    lo, hi = limits
    if k >= 0:
        return round(lo - 1 + (k % ((hi - lo + 2) * 100 + 1)) / 100.0, 2)
    return round(hi + 1 - ((-k) % 250) / 100.0, 2)


def _around(limits, k):
    """A temperature on the 0.05 grid between min-3 and max+3, biased to the limits."""
    lo, hi = limits
    grid = temp_grid(lo - 3, hi + 3)
    if k >= 0:
        return grid[k % len(grid)] if k % 2 else grid[min(len(grid) - 1, k)]
    return grid[len(grid) - 1 - ((-k) % len(grid))]
