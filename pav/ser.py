"""JSON (de)serialisation of pyairtouch message objects for replay files and samples."""

from __future__ import annotations

import dataclasses
import datetime
import enum
import importlib


def to_json(o):
    if o is None or isinstance(o, (bool, int, str)):
        return o
    if isinstance(o, float):
        return {"$f": o.hex()}
    if isinstance(o, (bytes, bytearray)):
        return {"$b": bytes(o).hex()}
    if isinstance(o, enum.Enum):
        return {"$e": f"{type(o).__module__}:{type(o).__qualname__}", "n": o.name}
    if isinstance(o, datetime.timedelta):
        return {"$td": o.total_seconds()}
    if isinstance(o, datetime.time):
        return {"$time": [o.hour, o.minute, o.second]}
    if dataclasses.is_dataclass(o) and not isinstance(o, type):
        return {"$dc": f"{type(o).__module__}:{type(o).__qualname__}",
                "f": {f.name: to_json(getattr(o, f.name)) for f in dataclasses.fields(o)}}
    if isinstance(o, dict):
        return {"$d": [[to_json(k), to_json(v)] for k, v in o.items()]}
    if isinstance(o, (set, frozenset)):
        return {"$s": [to_json(x) for x in sorted(o)]}
    if isinstance(o, tuple):
        return {"$t": [to_json(x) for x in o]}
    if isinstance(o, list):
        return [to_json(x) for x in o]
    return {"$repr": repr(o)}


def _resolve(path: str):
    mod, qual = path.split(":")
    obj = importlib.import_module(mod)
    for part in qual.split("."):
        obj = getattr(obj, part)
    return obj


def from_json(j):
    if j is None or isinstance(j, (bool, int, str)):
        return j
    if isinstance(j, float):
        return j
    if isinstance(j, list):
        return [from_json(x) for x in j]
    if "$f" in j:
        return float.fromhex(j["$f"])
    if "$b" in j:
        return bytes.fromhex(j["$b"])
    if "$e" in j:
        return _resolve(j["$e"])[j["n"]]
    if "$td" in j:
        return datetime.timedelta(seconds=j["$td"])
    if "$time" in j:
        return datetime.time(*j["$time"])
    if "$dc" in j:
        cls = _resolve(j["$dc"])
        return cls(**{k: from_json(v) for k, v in j["f"].items()})
    if "$d" in j:
        return {from_json(k): from_json(v) for k, v in j["$d"]}
    if "$s" in j:
        return set(from_json(x) for x in j["$s"])
    if "$t" in j:
        return tuple(from_json(x) for x in j["$t"])
    raise ValueError(f"cannot deserialise {j!r}")


def brief(o, limit: int = 400) -> str:
    s = repr(o)
    return s if len(s) <= limit else s[:limit] + "..."
