"""Frame-level vocabulary for checks on an initialised client (C10, C12, C14, C19).

`ApiInterp` initialises a client against the simulated console, then executes
JSON-able operations (console pushes status / timer / version / error frames,
subscriptions change) and maintains the reference expectation:

* every public getter == pav.refmodel.expected_model(console state)
* per operation, for every currently subscribed callable, lower / upper bounds
  on the number of invocations and the identifier it must be called with.
"""

from __future__ import annotations

import copy

from hypothesis import strategies as st

from pav import console as con
from pav import harness, refmodel
from pav.harness import Violation
from pav.rig import ApiRig

POOL = 5  # callables per scope (slot % 5 selects the kind of callable)


class ApiInterp:
    def __init__(self, cid: str, inst, state) -> None:
        self.cid = cid
        self.active: set = set()
        self.both_regs: dict = {}
        self.inst = inst
        self.gen = inst["gen"]
        self.state = copy.deepcopy(state)
        self.ops = [["init", inst, state]]
        self.rig = ApiRig(inst, state)
        r = self.rig.run_init()
        if r != ("ok", True):
            raise Violation(f"{cid}:init", f"init() against an answering console: {r!r}", self.case())
        self.at = self.rig.at
        self.acs = {a.ac_id: a for a in self.at.air_conditioners}
        self.zones = {}
        for a in self.at.air_conditioners:
            for z in a.zones:
                self.zones[z.zone_id] = z
        self.mapping = con.mapping(inst)
        self.desc = {a["number"]: None for a in inst["acs"]}   # expected error description
        self.version = dict(inst["version"])
        self.rig.console.error_mode = "text"
        # error texts answered during init
        for (_t, _c, kind, payload, _f) in self.rig.console.requests:
            if kind == "error_req":
                self.desc[payload] = self.rig.console.error_text.get(payload)
        self.calls: list = []          # (scope, ident, slot, arg) in order
        self.subs: dict = {}           # (scope, ident, slot) -> callable
        self.raising: set = set()
        self.acting: set = set()
        self.acted = 0
        self.act_errors: list = []
        self.frames = 0
        self.nt: set = set()
        self.entity_frames: dict = {}
        self.check_model("after init")

    # ------------------------------------------------------------------ utilities
    def case(self):
        return {"ops": self.ops}

    def bad(self, key, what):
        raise Violation(f"{self.cid}:{key}", what, self.case())

    @property
    def tr(self):
        return self.rig.net.current

    def _callable(self, scope, ident, slot):
        key = (scope, ident, slot)
        if key not in self.subs:
            interp = self

            async def cb(arg, _key=key):
                interp.calls.append((_key, arg))
                if _key in interp.acting:
                    # a subscriber that reacts by using the API from inside the notification (re-entrancy)
                    interp.acted += 1
                    try:
                        await interp.at.check_for_updates()
                    except Exception as exc:  # noqa: BLE001 - reported by do()
                        interp.act_errors.append(repr(exc))
                if _key in interp.raising:
                    raise RuntimeError(f"subscriber {_key} fails")
            # the API accepts any callable returning an awaitable: plain coroutine functions, partials, callable
            # objects, bound methods and lambdas are all used (chosen by slot)
            kind = slot % 5
            if kind == 1:
                import functools
                cb = functools.partial(cb, _key=key)
            elif kind == 2:
                cb = _CallableObject(cb)
            elif kind == 3:
                cb = _Holder(cb).method
            elif kind == 4:
                inner = cb
                cb = lambda arg: inner(arg)  # noqa: E731
            self.subs[key] = cb
        return self.subs[key]

    # ------------------------------------------------------------------ expectations
    def exposed(self):
        return refmodel.expected_model(self.inst, self.state)

    def check_model(self, when: str):
        exp = self.exposed()
        for n, ac in self.acs.items():
            try:
                got = refmodel.read_ac(ac, self.rig.api)
            except Exception as exc:  # noqa: BLE001
                self.bad("getter-raised", f"{when}: a getter of AC {n} raised {exc!r}")
            e = exp["acs"][n]
            d = refmodel.compare_entity("ac", n, got, e)
            if d:
                self.bad(f"ac-attr:{d[0][0]}", f"{when}: AC {n}: {d[0][0]} = {d[0][1]!r}, the console's latest report means {d[0][2]!r}")
            code = self.state["acs"][str(n)]["error_code"]
            if code != 0 and got["error_description"] != self.desc[n]:
                self.bad("error-description", f"{when}: AC {n}: error description {got['error_description']!r}, "
                                              f"latest error text from the console is {self.desc[n]!r}")
        for zid, z in self.zones.items():
            try:
                got = refmodel.read_zone(z)
            except Exception as exc:  # noqa: BLE001
                self.bad("getter-raised", f"{when}: a getter of zone {zid} raised {exc!r}")
            d = refmodel.compare_entity("zone", zid, got, exp["zones"][zid])
            if d:
                self.bad(f"zone-attr:{d[0][0]}", f"{when}: zone {zid}: {d[0][0]} = {d[0][1]!r}, the console's latest report means {d[0][2]!r}")
        if list(self.at.console_versions) != self.version["versions"] or self.at.update_available != self.version["update"]:
            self.bad("version", f"{when}: console_versions={list(self.at.console_versions)} update_available="
                                f"{self.at.update_available}; console last reported {self.version}")
        if self.rig.loop.unhandled:
            self.bad("unhandled", f"unhandled exception: {self.rig.loop.unhandled[0]}")
        errs = harness.unhandled_task_errors()
        if errs:
            self.bad("task-died", f"a client task died: {errs[0]}")

    # ------------------------------------------------------------------ operations
    def do(self, op):
        self.ops.append(op)
        n_calls = len(self.calls)
        acted0 = self.acted
        vreq0 = sum(1 for r in self.rig.console.requests if r[2] == "version_req")
        conn_before = len(self.rig.net.conns)
        exp_before = self.exposed()
        desc_before = dict(self.desc)
        bounds = getattr(self, "op_" + op[0])(*op[1:])
        self.rig.loop.settle()
        if op[0] != "reinit" and (len(self.rig.net.conns) != conn_before or self.tr is None):
            self.bad("reset", f"operation {op[0]} disturbed the connection")
        self.check_model(f"after {op[0]} #{len(self.ops) - 1}")
        if bounds is not None:
            self.check_calls(op, n_calls, bounds, exp_before, desc_before)
        if self.act_errors:
            self.bad("reentrant-call-raised", f"{op[0]}: an API call made from inside a subscriber raised {self.act_errors[0]}")
        if self.acted != acted0:
            self.nt.add("reentrant-subscriber")
            vreq = sum(1 for r in self.rig.console.requests if r[2] == "version_req") - vreq0
            if vreq != self.acted - acted0:
                self.bad("reentrant-call-lost", f"{op[0]}: subscribers made {self.acted - acted0} API call(s) from inside their "
                                                f"notification but the console received {vreq} request(s)")

    def op_init(self, *a):
        return None

    def _send(self, frame, cuts=(), label="push"):
        self.rig.console.feed(self.tr, frame, cuts=cuts, label=label)
        self.frames += 1

    def op_ac_status(self, recs, stride=None):
        """Console pushes an AC status frame with the given records (any ids, any order)."""
        c = self.rig.console
        n_err0 = len([r for r in c.requests if r[2] == "error_req"])
        changed = {}
        for r in recs:
            n = r["number"]
            if n not in self.acs:
                self.nt.add("unknown-entity")
                continue
            old = self.state["acs"][str(n)]
            if r != old:
                changed[n] = changed.get(n, 0) + 1
                if r["error_code"] == 0:
                    self.desc[n] = None
            self.state["acs"][str(n)] = dict(r)
            c.state["acs"][str(n)] = dict(r)
            self.entity_frames[("ac", n)] = self.entity_frames.get(("ac", n), 0) + 1
        if len(recs) < len(self.acs):
            self.nt.add("partial-frame")
        for r in recs:
            if r.get("mode") in ("auto_heat", "auto_cool") or str(r.get("fan", "")).startswith("ia_"):
                self.nt.add("auto-variant")
        # AT5: the console may announce longer records than the known layout (known prefix + unknown tail)
        self._send(c.w.ac_status(recs, stride=stride, tail=b"\x80\x00\x5a\xa5") if (stride and self.gen == 5) else c.w.ac_status(recs))
        if stride and self.gen == 5 and stride != 10:
            self.nt.add("longer-records")
        self.rig.loop.settle()
        # error requests issued by the client and answered by the console
        answered = {}
        for (_t, _cid, kind, payload, _f) in [r for r in c.requests if r[2] == "error_req"][n_err0:]:
            if c.error_mode == "text":
                self.desc[payload] = c.error_text.get(payload)
                answered[payload] = answered.get(payload, 0) + 1
            elif c.error_mode == "empty":
                self.desc[payload] = None
                answered[payload] = answered.get(payload, 0) + 1
        return {"kind": "ac", "changed": changed, "answered": answered}

    def op_zone_status(self, recs, stride=None):
        c = self.rig.console
        changed = {}
        for r in recs:
            n = r["number"]
            if n not in self.zones:
                self.nt.add("unknown-entity")
                continue
            old = self.state["zones"][str(n)]
            if r != old:
                changed[n] = changed.get(n, 0) + 1
            self.state["zones"][str(n)] = dict(r)
            c.state["zones"][str(n)] = dict(r)
            self.entity_frames[("zone", n)] = self.entity_frames.get(("zone", n), 0) + 1
        if len(recs) < len(self.zones):
            self.nt.add("partial-frame")
        if stride and self.gen == 5 and recs and self.zones:
            self._send(c.w.zone_status(recs, stride=stride), label="push:zone_status")
            if stride != 8:
                self.nt.add("longer-records")
        else:
            self._send(c.w.zone_status(recs), label="push:zone_status")
        return {"kind": "zone", "changed": changed}

    def op_timer_status(self, timers):
        """timers: {ac(str): {"on":..,"off":..}} ; AT4 frames always carry ACs 0..3."""
        c = self.rig.console
        changed = {}
        full = dict(timers)
        if self.gen == 4:
            zero = {"on": {"disabled": False, "hour": 0, "minute": 0}, "off": {"disabled": False, "hour": 0, "minute": 0}}
            full = {str(k): timers.get(str(k), zero) for k in range(4)}
        for k, t in full.items():
            n = int(k)
            if n not in self.acs:
                continue
            old = self.state["timers"][str(n)]
            if t != old:
                changed[n] = changed.get(n, 0) + 1
            self.state["timers"][str(n)] = copy.deepcopy(t)
            c.state["timers"][str(n)] = copy.deepcopy(t)
        self._send(c.w.timer_status(full))
        return {"kind": "timer", "changed": changed}

    def op_version(self, ver):
        c = self.rig.console
        changed = ver != self.version
        self.version = dict(ver)
        c.w.current_version = dict(ver)   # what the console answers to later version requests
        self._send(c.w.version(ver))
        return {"kind": "version", "changed": changed}

    def op_error_info(self, ac, text):
        """Unsolicited error information frame."""
        c = self.rig.console
        changed = {}
        if ac in self.acs:
            if self.desc[ac] != text:
                changed[ac] = 1
            self.desc[ac] = text
        self._send(c.w.error_info(ac, text))
        return {"kind": "errinfo", "changed": changed}

    def op_timer_command(self, call, echo):
        """The application sets / clears a quick timer through the API; nothing the client exposes may change (and no
        subscriber may be called) until the console reports - which it then does (`echo`), with the other timer as it
        was."""
        from pav import cmdref
        n = call[1]
        if n not in self.acs:
            return {"kind": "none"}
        n_calls = len(self.calls)
        exp_before = self.exposed()
        r = self.rig.loop.call(cmdref.perform(self.rig, call))
        self.rig.loop.settle()
        if r[0] != "ok":
            self.bad("command-raised", f"{call}: {r!r}")
        self.nt.add("api-command")
        self.check_model(f"after the API call {call[0]} (before the console reported anything)")
        if len(self.calls) != n_calls:
            self.bad("spurious-notification:command", f"{call}: subscribers {[c[0] for c in self.calls[n_calls:]]} were invoked by an "
                                                      f"API call although the console has reported nothing")
        if not echo or call[0] == "quick_duration":
            return {"kind": "none"}
        which = "on" if call[2] == "ON_TIMER" else "off"
        new = copy.deepcopy(self.state["timers"][str(n)])
        new[which] = {"disabled": False, "hour": call[3], "minute": call[4]} if call[0] == "timer_time" else \
            {"disabled": True, "hour": 0, "minute": 0}
        return self.op_timer_status({str(n): new})

    def op_reinit(self):
        """The application shuts the client down and initialises the same object again against the same console (a
        reload): the model is rebuilt from scratch and must again equal the console's reports; subscriptions made on
        the old objects are gone."""
        c = self.rig.console
        r = self.rig.loop.call(self.at.shutdown())
        if r[0] != "ok":
            self.bad("shutdown", f"shutdown(): {r!r}")
        self.rig.loop.advance(1.0)
        c.step_count = {}
        n_req0 = len(c.requests)
        r = self.rig.run_init()
        if r != ("ok", True):
            self.bad("reinit", f"init() after shutdown(): {r!r}")
        self.rig.loop.settle()
        self.acs = {a.ac_id: a for a in self.at.air_conditioners}
        self.zones = {z.zone_id: z for a in self.at.air_conditioners for z in a.zones}
        self.active.clear()
        self.both_regs.clear()
        self.subs.clear()
        self.raising.clear()
        self.acting.clear()
        self.desc = {n: None for n in self.desc}
        for (_t, _cid, kind, payload, _f) in c.requests[n_req0:]:
            if kind == "error_req" and payload in self.desc:
                if c.error_mode == "text":
                    self.desc[payload] = c.error_text.get(payload)
                elif c.error_mode == "empty":
                    self.desc[payload] = None
        self.nt.add("reinit")
        return None

    def op_error_mode(self, mode, texts):
        c = self.rig.console
        c.error_mode = mode
        c.error_text = {int(k): v for k, v in texts.items()}
        return None

    def op_unknown(self, which):
        f, _ = self.rig.console.extra_frame(["unknown" if which < 4 else "foreign", which])
        self._send(f)
        return {"kind": "none"}

    def op_subscribe(self, scope, ident, slot, twice=False, raising=False, acting=False):
        # scopes "both_ac" / "both_acstate": ONE callable registered through AirConditioner.subscribe and / or
        # AirConditioner.subscribe_ac_state of the same unit (key ("both", ident, slot))
        ckey = ("both", ident, slot) if scope.startswith("both_") else (scope, ident, slot)
        cb = self._callable(*ckey)
        if raising:
            self.raising.add(ckey)
            self.nt.add("raising-subscriber")
        if acting:
            self.acting.add(ckey)
        obj, sub, _unsub = self._target(scope, ident)
        if obj is None:
            return None
        sub(cb)
        if twice:
            sub(cb)
            self.nt.add("subscribe-twice")
        if scope.startswith("both_"):
            regs = self.both_regs.setdefault((ident, slot), set())
            regs.add(scope[5:])
            if len(regs) == 2:
                self.nt.add("same-callable-both-ways")
        self.active.add(ckey)
        return None

    def op_unsubscribe(self, scope, ident, slot):
        ckey = ("both", ident, slot) if scope.startswith("both_") else (scope, ident, slot)
        cb = self._callable(*ckey)
        obj, _sub, unsub = self._target(scope, ident)
        if obj is None:
            return None
        unsub(cb)
        if scope.startswith("both_"):
            regs = self.both_regs.setdefault((ident, slot), set())
            if scope[5:] in regs:
                self.nt.add("unsubscribe")
            regs.discard(scope[5:])
            if not regs:
                self.active.discard(ckey)
            return None
        if ckey in self.active:
            self.nt.add("unsubscribe")
        self.active.discard(ckey)
        return None

    def _target(self, scope, ident):
        if scope == "at":
            return self.at, self.at.subscribe, self.at.unsubscribe
        if scope in ("ac", "both_ac"):
            ac = self.acs.get(ident)
            return (ac, ac.subscribe, ac.unsubscribe) if ac else (None, None, None)
        if scope in ("acstate", "both_acstate"):
            ac = self.acs.get(ident)
            return (ac, ac.subscribe_ac_state, ac.unsubscribe_ac_state) if ac else (None, None, None)
        z = self.zones.get(ident)
        return (z, z.subscribe, z.unsubscribe) if z else (None, None, None)

    # ------------------------------------------------------------------ notification oracle
    def check_calls(self, op, n0, bounds, exp_before, desc_before):
        new = self.calls[n0:]
        exp_after = self.exposed()
        counts = {}
        for key, arg in new:
            counts[key] = counts.get(key, 0) + 1
            scope, ident, slot = key
            if key not in self.active:
                self.bad("called-unsubscribed", f"{op[0]}: callable {key} is not subscribed but was invoked")
            want = self.at.airtouch_id if scope == "at" else ident
            if arg != want:
                self.bad("wrong-identifier", f"{op[0]}: callable {key} invoked with {arg!r}, expected {want!r}")

        def ac_exposed_changed(n):
            if exp_before["acs"][n] != exp_after["acs"][n]:
                return True
            code = self.state["acs"][str(n)]["error_code"]
            return code != 0 and desc_before[n] != self.desc[n]

        for key in sorted(self.active):
            scope, ident, slot = key
            if scope == "both":
                # one callable, registered as a general subscriber and / or as an AC-state subscriber: it hears what
                # the wider of its live registrations hears, once per change
                scope = "ac" if "ac" in self.both_regs[(ident, slot)] else "acstate"
            got = counts.get(key, 0)
            lo = hi = 0
            kind = bounds["kind"]
            if scope == "at":
                if kind == "version":
                    lo = hi = 1 if bounds["changed"] else 0
            elif scope in ("ac", "acstate"):
                if kind in ("ac", "timer", "errinfo"):
                    ch = bounds["changed"].get(ident, 0)
                    extra = bounds.get("answered", {}).get(ident, 0)
                    hi = ch + extra
                    lo = 1 if ac_exposed_changed(ident) else 0
                    if kind == "errinfo":
                        hi = ch
                elif kind == "zone" and scope == "ac":
                    zs = [z for z in self.mapping[ident] if z in bounds["changed"]]
                    hi = sum(bounds["changed"][z] for z in zs)
                    lo = 1 if any(exp_before["zones"][z] != exp_after["zones"][z] for z in zs) else 0
            elif scope == "zone":
                if kind == "zone":
                    hi = bounds["changed"].get(ident, 0)
                    lo = 1 if exp_before["zones"][ident] != exp_after["zones"][ident] else 0
            if got < lo:
                self.bad(f"missed-notification:{scope}", f"{op[0]}: an exposed attribute of {scope} {ident} changed but subscriber "
                                                         f"{key} was not invoked")
            if got > hi:
                why = "the console merely repeated an identical report" if hi == 0 else f"at most {hi} expected"
                self.bad(f"spurious-notification:{scope}", f"{op[0]}: subscriber {key} invoked {got} times ({why})")
            if lo:
                self.nt.add("notified")
            if hi == 0 and kind != "none":
                self.nt.add("silent-repeat")

    def dispose(self):
        self.rig.dispose()


class _CallableObject:
    """A subscriber that is an instance with __call__ (no __name__ / __qualname__ of its own)."""

    __slots__ = ("_fn",)

    def __init__(self, fn):
        self._fn = fn

    def __call__(self, arg):
        return self._fn(arg)


class _Holder:
    def __init__(self, fn):
        self._fn = fn

    async def method(self, arg):
        await self._fn(arg)


# ---------------------------------------------------------------------------- strategies


def frame_ops(inst, *, common=False):
    """Strategy for one console push operation on this installation."""
    gen = inst["gen"]
    ac_ids = [a["number"] for a in inst["acs"]]
    zone_ids = sorted(con.zones_of(inst))
    unknown_ac = [n for n in range(4 if gen == 4 else 16) if n not in ac_ids][:2]
    unknown_zone = [n for n in range(16) if n not in zone_ids][:2]
    ops = []
    ac_rec = st.sampled_from(ac_ids + unknown_ac).flatmap(lambda n: con.ac_state_strategy(gen, n, common=common))
    ac_list = st.lists(ac_rec, min_size=1, max_size=max(2, len(ac_ids) + 1))
    ops.append(ac_list.map(lambda r: ["ac_status", r]))
    if gen == 5:
        ops.append(st.tuples(ac_list, st.sampled_from([8, 10, 12, 14])).map(lambda t: ["ac_status", t[0], t[1]]))
    if zone_ids or unknown_zone:
        z_rec = st.sampled_from(zone_ids + unknown_zone).flatmap(lambda n: con.zone_state_strategy(gen, n, common=common))
        if zone_ids or gen == 4:
            z_list = st.lists(z_rec, min_size=1, max_size=min(16, len(zone_ids) + 2))
            ops.append(z_list.map(lambda r: ["zone_status", r]))
            if gen == 5 and zone_ids:
                ops.append(st.tuples(z_list, st.sampled_from([9, 10, 12])).map(lambda t: ["zone_status", t[0], t[1]]))
    ops.append(st.dictionaries(st.sampled_from([str(n) for n in ac_ids]), con.timer_strategy, min_size=1).map(
        lambda t: ["timer_status", t]))
    sep = "|" if gen == 4 else ","
    vtxt = st.text(st.characters(min_codepoint=0x21, max_codepoint=0x7E, exclude_characters=sep), min_size=1, max_size=8)
    ops.append(st.fixed_dictionaries({"update": st.booleans(), "versions": st.lists(vtxt, min_size=1, max_size=2)}).map(
        lambda v: ["version", v]))
    etext = st.text(st.characters(min_codepoint=0x20, max_codepoint=0x7E), min_size=1, max_size=20)
    ops.append(st.tuples(st.sampled_from(["text", "text", "empty", "silent"]),
                         st.dictionaries(st.sampled_from([str(n) for n in ac_ids]), etext)).map(lambda t: ["error_mode", t[0], t[1]]))
    ops.append(st.tuples(st.sampled_from(ac_ids), st.one_of(st.none(), etext)).map(lambda t: ["error_info", t[0], t[1]]))
    ops.append(st.integers(0, 7).map(lambda n: ["unknown", n]))
    tcall = st.one_of(
        st.tuples(st.sampled_from(ac_ids), st.sampled_from(["ON_TIMER", "OFF_TIMER"]), st.integers(0, 23), st.integers(0, 59)).map(
            lambda t: ["timer_time", *t]),
        st.tuples(st.sampled_from(ac_ids), st.sampled_from(["ON_TIMER", "OFF_TIMER"])).map(lambda t: ["timer_clear", *t]),
        st.tuples(st.sampled_from(ac_ids), st.sampled_from(["ON_TIMER", "OFF_TIMER"]), st.integers(0, 600)).map(
            lambda t: ["quick_duration", *t]))
    ops.append(st.tuples(tcall, st.booleans()).map(lambda t: ["timer_command", t[0], t[1]]))
    return st.one_of(*ops)
