"""Socket-level vocabulary shared by the history checks (C01, C02, C07, C16).

`KINDS[gen]` maps a kind name to (build(params) -> pyairtouch message,
expect(params) -> (message type, data bytes)) where `expect` is an independent
hand encoding from the vendor tables (ref/spec) - not the library's encoder.
"""

from __future__ import annotations

import datetime
import struct

from hypothesis import strategies as st

import pyairtouch.at4.comms.x1F_ext as e4
import pyairtouch.at4.comms.x1FFF10_err_info as err4
import pyairtouch.at4.comms.x1FFF11_ac_ability as ab4
import pyairtouch.at4.comms.x1FFF12_group_names as gn4
import pyairtouch.at4.comms.x1FFF20_quick_timer as qt4
import pyairtouch.at4.comms.x1FFF30_console_ver as cv4
import pyairtouch.at4.comms.x2A_group_ctrl as gc4
import pyairtouch.at4.comms.x2B_group_status as gs4
import pyairtouch.at4.comms.x2C_ac_ctrl as ac4
import pyairtouch.at4.comms.x2D_ac_status as as4
import pyairtouch.at4.comms.x37_ac_timer_status as ts4
import pyairtouch.at5.comms.x1F_ext as e5
import pyairtouch.at5.comms.x1FFF10_err_info as err5
import pyairtouch.at5.comms.x1FFF11_ac_ability as ab5
import pyairtouch.at5.comms.x1FFF13_zone_names as zn5
import pyairtouch.at5.comms.x1FFF30_console_ver as cv5
import pyairtouch.at5.comms.x1FFF49_quick_timer as qt5
import pyairtouch.at5.comms.xC0_ctrl_status as c05
import pyairtouch.at5.comms.xC020_zone_ctrl as zc5
import pyairtouch.at5.comms.xC021_zone_status as zs5
import pyairtouch.at5.comms.xC022_ac_ctrl as ac5
import pyairtouch.at5.comms.xC023_ac_status as as5
import pyairtouch.at5.comms.xC033_ac_timer_status as ts5
import pyairtouch.comms.socket as sockmod


def _c0(sub, recs):
    rl = len(recs[0]) if recs else 0
    return bytes([sub, 0]) + struct.pack(">HHH", 0, rl, len(recs)) + b"".join(recs)


def _all_or(n):
    return "ALL" if n is None else n


def _opt_byte(n):
    return b"" if n is None else bytes([n])


# name: (params strategy, build, expect)
KINDS = {
    4: {
        "zone_pct": (st.tuples(st.integers(0, 15), st.integers(0, 100)),
                     lambda p: gc4.GroupControlMessage(p[0], gc4.GroupPowerControl.UNCHANGED, gc4.GroupControlMethod.DAMPER,
                                                       gc4.GroupDamperControl(p[1])),
                     lambda p: (0x2A, bytes([p[0], (4 << 5) | (2 << 3), p[1], 0]))),
        "ac_sp": (st.tuples(st.integers(0, 3), st.integers(0, 62)),
                  lambda p: ac4.AcControlMessage(p[0], ac4.AcPowerControl.UNCHANGED, ac4.AcModeControl.UNCHANGED,
                                                 ac4.AcFanSpeedControl.UNCHANGED, ac4.AcSetPointValue(p[1])),
                  lambda p: (0x2C, bytes([p[0], 0xFF, (1 << 6) | p[1], 0]))),
        "zone_req": (st.just(()), lambda p: gs4.GroupStatusRequest(), lambda p: (0x2B, b"")),
        "ac_req": (st.just(()), lambda p: as4.AcStatusRequest(), lambda p: (0x2D, b"")),
        "timer_req": (st.just(()), lambda p: ts4.AcTimerStatusRequest(), lambda p: (0x37, b"")),
        "err_req": (st.tuples(st.integers(0, 255)),
                    lambda p: e4.ExtendedMessage(err4.AcErrorInformationRequest(p[0])),
                    lambda p: (0x1F, b"\xff\x10" + bytes([p[0]]))),
        "ability_req": (st.tuples(st.one_of(st.none(), st.integers(0, 3))),
                        lambda p: e4.ExtendedMessage(ab4.AcAbilityRequest(_all_or(p[0]))),
                        lambda p: (0x1F, b"\xff\x11" + _opt_byte(p[0]))),
        "names_req": (st.tuples(st.one_of(st.none(), st.integers(0, 15))),
                      lambda p: e4.ExtendedMessage(gn4.GroupNamesRequest(_all_or(p[0]))),
                      lambda p: (0x1F, b"\xff\x12" + _opt_byte(p[0]))),
        "version_req": (st.just(()), lambda p: e4.ExtendedMessage(cv4.ConsoleVersionRequest()), lambda p: (0x1F, b"\xff\x30")),
        "quick_timer": (st.tuples(st.integers(0, 3), st.integers(0, 1), st.integers(0, 23), st.integers(0, 59)),
                        lambda p: e4.ExtendedMessage(qt4.QuickTimerMessage(p[0], qt4.TimerType(p[1]),
                                                                          datetime.timedelta(hours=p[2], minutes=p[3]))),
                        lambda p: (0x1F, b"\xff\x20" + bytes(p))),
    },
    5: {
        "zone_pct": (st.tuples(st.integers(0, 15), st.integers(0, 100)),
                     lambda p: c05.ControlStatusMessage(zc5.ZoneControlMessage([zc5.ZoneControlData(
                         p[0], zc5.ZonePowerControl.UNCHANGED, zc5.ZoneDamperControl(p[1]))])),
                     lambda p: (0xC0, _c0(0x20, [bytes([p[0], 4 << 5, p[1], 0])]))),
        "ac_sp": (st.tuples(st.integers(0, 15), st.integers(0, 250)),
                  lambda p: c05.ControlStatusMessage(ac5.AcControlMessage([ac5.AcControlData(
                      p[0], ac5.AcPowerControl.UNCHANGED, ac5.AcModeControl.UNCHANGED, ac5.AcFanSpeedControl.UNCHANGED,
                      (p[1] + 100) / 10.0)])),
                  lambda p: (0xC0, _c0(0x22, [bytes([p[0], 0xFF, 0x40, p[1]])]))),
        "zone_req": (st.just(()), lambda p: c05.ControlStatusMessage(zs5.ZoneStatusRequest()), lambda p: (0xC0, _c0(0x21, []))),
        "ac_req": (st.just(()), lambda p: c05.ControlStatusMessage(as5.AcStatusRequest()), lambda p: (0xC0, _c0(0x23, []))),
        "timer_req": (st.just(()), lambda p: c05.ControlStatusMessage(ts5.AcTimerStatusRequest()), lambda p: (0xC0, _c0(0x33, []))),
        "err_req": (st.tuples(st.integers(0, 255)),
                    lambda p: e5.ExtendedMessage(err5.AcErrorInformationRequest(p[0])),
                    lambda p: (0x1F, b"\xff\x10" + bytes([p[0]]))),
        "ability_req": (st.tuples(st.one_of(st.none(), st.integers(0, 15))),
                        lambda p: e5.ExtendedMessage(ab5.AcAbilityRequest(_all_or(p[0]))),
                        lambda p: (0x1F, b"\xff\x11" + _opt_byte(p[0]))),
        "names_req": (st.tuples(st.one_of(st.none(), st.integers(0, 15))),
                      lambda p: e5.ExtendedMessage(zn5.ZoneNamesRequest(_all_or(p[0]))),
                      lambda p: (0x1F, b"\xff\x13" + _opt_byte(p[0]))),
        "version_req": (st.just(()), lambda p: e5.ExtendedMessage(cv5.ConsoleVersionRequest()), lambda p: (0x1F, b"\xff\x30")),
        "quick_timer": (st.tuples(st.integers(0, 15), st.integers(0, 1), st.integers(0, 23), st.integers(0, 59)),
                        lambda p: e5.ExtendedMessage(qt5.QuickTimerMessage(p[0], qt5.TimerType(p[1]),
                                                                          datetime.timedelta(hours=p[2], minutes=p[3]))),
                        lambda p: (0x1F, b"\xff\x49" + bytes(p))),
    },
}

KIND_NAMES = sorted(KINDS[4])
assert sorted(KINDS[5]) == KIND_NAMES


def kind_and_params(gen: int):
    """Strategy -> [kind, params(list)]"""
    return st.sampled_from(KIND_NAMES).flatmap(
        lambda k: KINDS[gen][k][0].map(lambda p: [k, list(p)]))


def build(gen: int, kind: str, params):
    return KINDS[gen][kind][1](tuple(params))


def expect(gen: int, kind: str, params):
    return KINDS[gen][kind][2](tuple(params))


# stock policies + custom ones, referenced by index / spec in op lists
STOCK = {"idem": sockmod.RETRY_IDEMPOTENT, "nonidem": sockmod.RETRY_NON_IDEMPOTENT, "conn": sockmod.RETRY_CONNECTED}


def policy_of(spec):
    """spec: 'idem' | 'nonidem' | 'conn' | [retries, lifetime]"""
    if isinstance(spec, str):
        return STOCK[spec]
    return sockmod.RetryPolicy(max_retries=spec[0], max_lifetime=spec[1])


def policy_params(spec):
    p = policy_of(spec)
    return p.max_retries, p.max_lifetime


def policy_strategy(lifetimes=(1.0, 2.0, 30.0, 60.0)):
    return st.one_of(st.sampled_from(["idem", "nonidem", "conn"]),
                     st.tuples(st.integers(0, 3), st.sampled_from(list(lifetimes))).map(list))
