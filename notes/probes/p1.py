import asyncio, sys, logging
sys.path.insert(0, '/tmp/probe')
from sim import *
from unittest import mock
import pyairtouch.comms.socket as S
from pyairtouch.at4.comms import registry as r4, x2C_ac_ctrl as acc, x2A_group_ctrl as gc
logging.disable(logging.CRITICAL)
def mk(i): return acc.AcControlMessage(ac_number=i%4, power=acc.AcPowerControl.TURN_ON, mode=acc.AcModeControl.UNCHANGED, fan_speed=acc.AcFanSpeedControl.UNCHANGED, set_point_control=acc.AcSetPointValue(20+i))
loop = VLoop(); asyncio.set_event_loop(loop)
net = Net(loop)
async def main():
    sock = S.AirTouchSocket(loop, "h", 9004, r4.INSTANCE)
    net.script.extend([("refuse",0.0)])
    await sock.open_socket()
    await asyncio.sleep(0.5)
    for i in range(3):
        await sock.send(mk(i), S.RETRY_IDEMPOTENT)
    print("queue:", [e.message.set_point_control for e in sock._message_queue])
    await asyncio.sleep(3)
    print("connected", sock.is_connected, "tx:", [d.hex() for t,d in net.conns[0].written] if net.conns else None)
    await sock.close()
with mock.patch("asyncio.open_connection", net.open_connection):
    loop.run_until_complete(main())
print("t=", loop.time())
