import asyncio, sys, logging
sys.path.insert(0, '/tmp/probe')
from sim import *
from unittest import mock
import pyairtouch.comms.socket as S
from pyairtouch.at4.comms import registry as r4, x2C_ac_ctrl as acc
logging.disable(logging.CRITICAL)
def run(coro_fn):
    loop = VLoop(); asyncio.set_event_loop(loop); net = Net(loop)
    with mock.patch("asyncio.open_connection", net.open_connection):
        loop.run_until_complete(coro_fn(loop, net))
async def dc(loop, net):
    sock = S.AirTouchSocket(loop, "h", 9004, r4.INSTANCE)
    got=[]
    async def sub(h, m): got.append(m)
    sock.subscribe_on_message_received(sub)
    await sock.open_socket(); await asyncio.sleep(0.5)
    c = net.conns[0]
    m = acc.AcControlMessage(0, acc.AcPowerControl.TURN_ON, acc.AcModeControl.UNCHANGED, acc.AcFanSpeedControl.UNCHANGED, None)
    net.default = ("accept", 0.3)
    c.peer_reset()
    await sock.send(m, S.RETRY_IDEMPOTENT)
    await asyncio.sleep(5)
    print("double reset: opens", len(net.conns), "open now", net.open_conns, "max_open", net.max_open, "attempts", net.attempts)
    for cc in net.conns: print("  conn", cc.cid, "closing", cc.closing, "tx", [d.hex() for t,d in cc.written])
    fr = bytes.fromhex("555580b0012b0000f52f")
    for cc in net.conns: cc.feed(fr)
    await asyncio.sleep(1); print("  got", got)
    await sock.close(); await asyncio.sleep(1)
    print("  after close open:", net.open_conns)
run(dc)
