import asyncio, sys, logging
sys.path.insert(0, '/tmp/probe')
from sim import *
from unittest import mock
import pyairtouch.comms.socket as S
import pyairtouch.comms.heartbeat as H
from pyairtouch.at4.comms import registry as r4, x2C_ac_ctrl as acc, x2A_group_ctrl as gc, x1F_ext as ext, x1FFF30_console_ver as cv
logging.disable(logging.CRITICAL)
def run(coro_fn):
    loop = VLoop(); asyncio.set_event_loop(loop); net = Net(loop)
    with mock.patch("asyncio.open_connection", net.open_connection):
        loop.run_until_complete(coro_fn(loop, net))
    pend = [t for t in asyncio.all_tasks(loop) if not t.done()]
    return loop, net, pend

# --- D2 heartbeat: never answered
async def hb(loop, net):
    sock = S.AirTouchSocket(loop, "h", 9004, r4.INSTANCE)
    await sock.open_socket(); await asyncio.sleep(0.1)
    hbm = H.HeartbeatManager(loop, sock, H.HeartbeatConfig(message=ext.ExtendedMessage(cv.ConsoleVersionRequest()), response_match=lambda m: isinstance(m, ext.ExtendedMessage) and m.sub_message.message_id==cv.MESSAGE_ID))
    await hbm.start()
    await asyncio.sleep(2000)
    print("HB never answered: attempts", net.attempts, "opens", len(net.conns), "tx count", sum(len(c.written) for c in net.conns)//3)
    await hbm.stop(); await sock.close()
run(hb)

# --- D6 close during back-off
async def cl(loop, net):
    sock = S.AirTouchSocket(loop, "h", 9004, r4.INSTANCE)
    net.default = ("refuse", 0.0)
    await sock.open_socket(); await asyncio.sleep(0.5)
    await sock.close()
    n = len(net.attempts)
    net.default = ("accept", 0.0)
    await asyncio.sleep(10)
    print("close during backoff: attempts before", n, "after", len(net.attempts), "open conns", net.open_conns, "is_connected", sock.is_connected, "bg", len(sock._background_tasks))
loop, net, pend = run(cl); print(" pending tasks:", len(pend))

# --- D4 struct.error queued while down
async def se(loop, net):
    sock = S.AirTouchSocket(loop, "h", 9004, r4.INSTANCE)
    net.script.append(("refuse", 0.0))
    got = []
    async def sub(h, m): got.append(m)
    sock.subscribe_on_message_received(sub)
    await sock.open_socket(); await asyncio.sleep(0.5)
    bad = gc.GroupControlMessage(group_number=300, power=gc.GroupPowerControl.TURN_ON, control_method=gc.GroupControlMethod.UNCHANGED, setting=None)
    await sock.send(bad, S.RETRY_IDEMPOTENT)
    await asyncio.sleep(5)
    print("struct.error queued: connected", sock.is_connected, "bg tasks", len(sock._background_tasks))
    # probe frame: group status request from console
    fr = bytes.fromhex("555580b0012b0000f52f")
    net.conns[-1].feed(fr); await asyncio.sleep(1)
    print("  probe delivered:", got)
    await sock.close()
run(se)

# --- D5 double reset: peer EOF + write error same iteration
async def dc(loop, net):
    sock = S.AirTouchSocket(loop, "h", 9004, r4.INSTANCE)
    await sock.open_socket(); await asyncio.sleep(0.5)
    c = net.conns[0]
    c.fail_on_write = 1
    c.peer_eof()
    m = acc.AcControlMessage(0, acc.AcPowerControl.TURN_ON, acc.AcModeControl.UNCHANGED, acc.AcFanSpeedControl.UNCHANGED, None)
    net.default = ("accept", 0.3)
    await sock.send(m, S.RETRY_IDEMPOTENT)
    await asyncio.sleep(5)
    print("double reset: opens", len(net.conns), "open now", net.open_conns, "max_open", net.max_open, "attempts", net.attempts)
    await sock.close(); await asyncio.sleep(1)
    print("  after close open:", net.open_conns)
run(dc)
