import asyncio, sys, logging, struct
sys.path.insert(0, '/tmp/probe')
from sim import *; from ref import *
from unittest import mock
import pyairtouch
logging.disable(logging.CRITICAL)
def run(coro_fn):
    loop = VLoop(); asyncio.set_event_loop(loop); net = Net(loop)
    with mock.patch("asyncio.open_connection", net.open_connection):
        loop.run_until_complete(coro_fn(loop, net))
    return loop, net

class Console5:
    def __init__(self, net, loop, nac=1, zones=(0,1,2)):
        self.net=net; self.loop=loop; self.rx=bytearray(); self.reqs=[]; self.silent_at=None
        net.on_accept=self.accept
        self.zones=zones
    def accept(self, tr):
        self.tr=tr; self.rx=bytearray()
        orig=tr.write
        def w(data):
            orig(data); self.rx.extend(data); self.pump()
        tr.write=w
    def pump(self):
        try: frames=parse_stream(5, bytes(self.rx))
        except Exception: return
        if not frames: return
        self.rx.clear()
        for f in frames:
            self.reqs.append((self.loop.time(), f)); self.loop.call_soon(self.answer, f)
    def send(self, mt, data, frm=None, pid=1):
        frm = frm if frm is not None else (0x90 if mt==0x1F else 0x80)
        self.tr.feed(at5_frame(0xB0, frm, pid, mt, data))
    def c0(self, sub, rl, recs): return bytes([sub,0])+struct.pack(">HHH",0,rl,len(recs))+b"".join(recs)
    def answer(self, f):
        to,frm,pid,mt,data=f
        if mt==0x1F:
            sid=data[:2]
            if sid==b"\xff\x30": self.send(0x1F, b"\xff\x30\x00\x05"+b"1.0.3", pid=pid)
            elif sid==b"\xff\x13":
                d=b"\xff\x13"
                for z in self.zones:
                    n=f"Zone{z}".encode(); d+=bytes([z,len(n)])+n
                self.send(0x1F, d, pid=pid)
            elif sid==b"\xff\x11":
                name=b"UNIT".ljust(16,b"\0")
                d=b"\xff\x11"+bytes([0,24])+name+bytes([0,len(self.zones),0x17,0x1d,16,31,18,31])
                self.send(0x1F, d, pid=pid)
            elif sid==b"\xff\x10":
                self.send(0x1F, b"\xff\x10"+data[2:3]+b"\x08ER: FFFE", pid=pid)
        elif mt==0xC0:
            sub=data[0]
            if sub==0x23: self.send(0xC0, self.c0(0x23,10,[bytes.fromhex("10127800 02da 0000 8000".replace(" ",""))]), pid=pid)
            elif sub==0x33: self.send(0xC0, self.c0(0x33,9,[bytes([0,0x80,0,0x80,0,0,0,0,0])]), pid=pid)
            elif sub==0x21: self.send(0xC0, self.c0(0x21,8,[bytes([0x40|z,0x80,0x96,0x80,0x02,0xE7,0,0]) for z in self.zones]), pid=pid)

async def t(loop, net):
    con=Console5(net, loop)
    at=pyairtouch.connect(pyairtouch.AirTouchModel.AIRTOUCH_5, "h", 9005)
    ok=await at.init()
    print("init", ok, "t=", loop.time())
    print([ (round(t,3), hex(f[3]), f[4][:2].hex()) for t,f in con.reqs])
    ac=at.air_conditioners[0]
    print(ac.name, ac.power_state, ac.selected_mode, ac.active_fan_speed, ac.target_temperature, ac.current_temperature, [ (z.zone_id,z.name,z.power_state,z.target_temperature,z.current_temperature) for z in ac.zones])
    print(ac.supported_modes, ac.supported_fan_speeds, ac.min_target_temperature, ac.max_target_temperature)
    con.reqs.clear()
    await ac.set_target_temperature(22.26); await ac.zones[1].set_target_temperature(23.44); await ac.set_power(pyairtouch.AcPowerControl.TOGGLE)
    await asyncio.sleep(0.1)
    print([ (hex(f[0]),hex(f[1]),f[2],hex(f[3]), f[4].hex()) for t,f in con.reqs])
    await at.shutdown()
    await asyncio.sleep(1000)
    print("after shutdown attempts", net.attempts, "open", net.open_conns)
loop, net = run(t)
print("pending:", [t for t in asyncio.all_tasks(loop) if not t.done()])
