import sys, itertools, random, collections
from pyairtouch.at4.comms import registry as r4, hdr as h4
from pyairtouch.at5.comms import registry as r5, hdr as h5
import struct
ABS="ABSENT"; UND="UNDEF"
def ref_group4(b):
    b1,b2,b3,b4,b5,b6=b
    p={0:"OFF",1:"ON",3:"TURBO"}.get(b1>>6,UND)
    sensor=bool(b4&0x80)
    raw=((b5<<8|b6)>>5)
    temp = ABS if (b5==0xFF or not sensor) else (raw-500)/10
    return dict(group_number=b1&0x3F, power_state=p, control_method="TEMPERATURE" if b2&0x80 else "DAMPER", damper_percentage=b2&0x7F,
        battery_status="LOW" if b3&0x80 else "NORMAL", supports_turbo=bool(b3&0x40), set_point=(b3&0x3F) if sensor else ABS, has_sensor=sensor, temperature=temp, spill_active=bool(b6&0x10))
def ref_ac4(b):
    b1,b2,b3,b4,b5,b6,b7,b8=b
    p={0:"OFF",1:"ON"}.get(b1>>6,UND)
    m={0:"AUTO",1:"HEAT",2:"DRY",3:"FAN",4:"COOL",8:"AUTO_HEAT",9:"AUTO_COOL"}.get(b2>>4,UND)
    f={0:"AUTO",1:"QUIET",2:"LOW",3:"MEDIUM",4:"HIGH",5:"POWERFUL",6:"TURBO"}.get(b2&15,UND)
    raw=((b5<<8|b6)>>5)
    return dict(ac_number=b1&0x3F,power_state=p,mode=m,fan_speed=f,spill_active=bool(b3&0x80),timer_set=bool(b3&0x40),set_point=b3&0x3F,temperature=ABS if b5==0xFF else (raw-500)/10,error_code=(b7<<8)|b8)
def ref_zone5(b):
    b1,b2,b3,b4,b5,b6,b7,b8=b[:8]
    p={0:"OFF",1:"ON",3:"TURBO"}.get(b1>>6,UND); sensor=bool(b4&0x80); raw=((b5&7)<<8)|b6
    return dict(zone_number=b1&0x3F,power_state=p,control_method="TEMPERATURE" if b2&0x80 else "DAMPER",damper_percentage=b2&0x7F,set_point=ABS if b3==0xFF else (b3+100)/10,has_sensor=sensor,
        temperature=(raw-500)/10 if (sensor and raw<=2000) else ABS, spill_active=bool(b7&2), battery_status="LOW" if b7&1 else "NORMAL")
def ref_ac5(b):
    b1,b2,b3,b4,b5,b6,b7,b8=b[:8]
    p={0:"OFF",1:"ON",2:"OFF_AWAY",3:"ON_AWAY",5:"SLEEP"}.get(b1>>4,UND)
    m={0:"AUTO",1:"HEAT",2:"DRY",3:"FAN",4:"COOL",8:"AUTO_HEAT",9:"AUTO_COOL"}.get(b2>>4,UND)
    f={0:"AUTO",1:"QUIET",2:"LOW",3:"MEDIUM",4:"HIGH",5:"POWERFUL",6:"TURBO",9:"INTELLIGENT_AUTO_QUIET",10:"INTELLIGENT_AUTO_LOW",11:"INTELLIGENT_AUTO_MEDIUM",12:"INTELLIGENT_AUTO_HIGH",13:"INTELLIGENT_AUTO_POWERFUL",14:"INTELLIGENT_AUTO_TURBO"}.get(b2&15,UND)
    raw=((b5&7)<<8)|b6
    return dict(ac_number=b1&15,power_state=p,mode=m,fan_speed=f,set_point=(b3+100)/10 if b3<=250 else ABS,turbo_active=bool(b4&8),bypass_active=bool(b4&4),spill_active=bool(b4&2),timer_set=bool(b4&1),temperature=(raw-500)/10 if raw<=2000 else ABS,error_code=(b7<<8)|b8)
def norm(v):
    import enum
    if isinstance(v, enum.Enum): return v.name
    return v
def impl4(mt, rec):
    d=r4.INSTANCE.get_decoder(mt); return d.decode(rec, h4.At4Header(0xb0,0x80,1,mt,len(rec))).message
def impl5(sub, rec, stride):
    data=bytes([sub,0])+struct.pack(">HHH",0,stride,1)+rec
    return r5.INSTANCE.get_decoder(0xC0).decode(data, h5.At5Header(0xb0,0x80,1,0xC0,len(data))).message.sub_message
cases={"group4":(6,ref_group4,lambda r: impl4(0x2B,r).groups[0]),"ac4":(8,ref_ac4,lambda r: impl4(0x2D,r).ac_status[0]),
       "zone5":(8,ref_zone5,lambda r: impl5(0x21,r,8).zones[0]),"ac5":(10,ref_ac5,lambda r: impl5(0x23,r,10).ac_status[0])}
rnd=random.Random(1)
for name,(n,ref,impl) in cases.items():
    diffs=collections.Counter(); ex={}
    tot=0
    for trial in range(40):
        base=bytearray(rnd.randrange(256) for _ in range(n))
        for pos in range(n-1):
            for v in range(0,65536, 1 if trial<2 else 97):
                rec=bytearray(base); rec[pos]=v>>8; rec[pos+1]=v&255; rec=bytes(rec); tot+=1
                R=ref(rec); und=[k for k,x in R.items() if x==UND]
                try: I=impl(rec); rej=None
                except Exception as e: I=None; rej=type(e).__name__
                if und:
                    if I is not None: diffs[("decoded-undefined",tuple(und))]+=1; ex.setdefault(("decoded-undefined",tuple(und)),rec.hex())
                    continue
                if I is None: diffs[("rejected-defined",rej)]+=1; ex.setdefault(("rejected-defined",rej),rec.hex()); continue
                for k,x in R.items():
                    got=norm(getattr(I,k)); want=None if x==ABS else x
                    if got!=want:
                        key=("field",k,"ABSENT" if x==ABS else "value"); diffs[key]+=1; ex.setdefault(key,(rec.hex(),got,want))
    print(name, "cases", tot, dict(diffs)); 
    for k,v in ex.items(): print("   ", k, v)
