import asyncio, sys, logging, random
sys.path.insert(0, '/tmp/probe')
from p10lib import *
import pyairtouch.comms.socket as S
def one(seed):
    rnd=random.Random(seed)
    loop = VLoop(); asyncio.set_event_loop(loop); net = Net(loop); errs=[]
    loop.set_exception_handler(lambda l,c: errs.append(c))
    res={}
    async def main():
        con=Console4(net, loop)
        # console delays each answer
        delays=[rnd.choice([0,0.125,0.5]) for _ in range(6)]; silent=rnd.choice([None,None,1,2,3,4,5,6])
        orig=con.answer; cnt=[0]
        def ans(f):
            cnt[0]+=1
            if silent and cnt[0]>=silent: return
            loop.call_later(delays[min(cnt[0]-1,5)], orig, f)
        con.answer=ans
        net.script.extend([("refuse",0.0)]*rnd.randint(0,2)+[("accept",rnd.choice([0,0.125,1.0]))])
        at=pyairtouch.connect(pyairtouch.AirTouchModel.AIRTOUCH_4, "h", 9004)
        notes=[]
        async def cs(*, connected): notes.append((loop.time(), connected))
        at._socket.subscribe_on_connection_changed(cs)
        t_shut=rnd.choice([0,0.0625,0.125,0.25,0.5,1.0,1.9375,2.0,2.0625,3,4.5,6,400])
        init_task=loop.create_task(at.init())
        await asyncio.sleep(t_shut)
        if rnd.random()<0.3 and net.conns and not net.conns[-1].closing: net.conns[-1].peer_reset()
        await at.shutdown()
        for _ in range(5): await asyncio.sleep(0)
        t0=loop.time(); na=len(net.attempts); nn=len(notes); nw=sum(len(c.written) for c in net.conns)
        tasks=[x for x in asyncio.all_tasks(loop) if x is not asyncio.current_task() and x is not init_task]
        timers=[h for h in loop._scheduled if not h._cancelled]
        res["tasks"]=tasks; res["timers"]=[h for h in timers]
        await asyncio.sleep(3000)
        res["late_attempts"]=net.attempts[na:]; res["late_notes"]=notes[nn:]; res["late_writes"]=sum(len(c.written) for c in net.conns)-nw
        res["open"]=set(net.open_conns); res["init"]=init_task.done() and init_task.result(); res["t_shut"]=t_shut; res["initialised"]=at.initialised
        try:
            await at._socket.send(None, S.RETRY_IDEMPOTENT); res["send"]="no raise"
        except S.NotOpenError: res["send"]="NotOpen"
        except Exception as e: res["send"]=repr(e)
    with mock.patch("asyncio.open_connection", net.open_connection):
        loop.run_until_complete(main())
    res["errs"]=errs
    loop.close()
    return res
import collections
c=collections.Counter()
for seed in range(400):
    r=one(seed)
    bad=[]
    if r["late_attempts"]: bad.append("late_attempts")
    if r["late_notes"]: bad.append("late_notes")
    if r["late_writes"]: bad.append("late_writes")
    if r["open"]: bad.append("open")
    if r["errs"]: bad.append("errs")
    init_timer=[h for h in r["timers"]]
    if r["tasks"]: bad.append("tasks")
    if r["send"]!="NotOpen": bad.append("send:"+r["send"][:40])
    c[tuple(bad)]+=1
    if bad and c[tuple(bad)]<=2: print(seed, r["t_shut"], bad, r["tasks"][:2], r["timers"][:2], r["errs"][:1])
print(c)
