import asyncio, sys, logging
sys.path.insert(0, '/tmp/probe')
from sim import VLoop
from unittest import mock
import pyairtouch, pyairtouch.comms.discovery as D
logging.disable(logging.CRITICAL)
class FSock:
    def __init__(self, *a, **k): self.opts=[]; self.bound=None
    def setsockopt(self,*a): self.opts.append(a)
    def bind(self, addr): self.bound=addr
class FDT(asyncio.DatagramTransport):
    def __init__(s, loop, proto, sock, udp): super().__init__(); s.loop=loop; s.proto=proto; s.sock=sock; s.udp=udp; s.closed=False
    def sendto(s, data, addr=None): s.udp.sent.append((s.loop.time(), s.sock.bound, bytes(data), addr)); s.udp.on_send(s, data, addr)
    def close(s): s.closed=True; s.udp.closed.append((s.loop.time(), s.sock.bound))
    def is_closing(s): return s.closed
class UDP:
    def __init__(s, loop): s.loop=loop; s.sent=[]; s.closed=[]; s.eps={}; s.script=[]
    def on_send(s, tr, data, addr):
        for delay, port, payload in s.script:
            if port==tr.sock.bound[1] and len([x for x in s.sent if x[1]==tr.sock.bound])==1:
                s.loop.call_later(delay, lambda tr=tr,p=payload: (not tr.closed) and tr.proto.datagram_received(p, ("10.0.0.9", port)))
class VL(VLoop):
    async def create_datagram_endpoint(self, protocol_factory, local_addr=None, remote_addr=None, *, sock=None, **kw):
        proto=protocol_factory(); tr=FDT(self, proto, sock, self.udp); proto.connection_made(tr); return tr, proto
loop=VL(); asyncio.set_event_loop(loop); loop.udp=UDP(loop)
loop.udp.script=[(0.7, 49005, b"192.168.1.5,SER123,AirTouch5,ID77,My, Home"), (0.2, 49005, b"garbage,AirTouch5,\xff\xfe"), (0.71, 49005, b"192.168.1.5,SER123,AirTouch5,ID77,My, Home")]
errs=[]; loop.set_exception_handler(lambda l,c: errs.append(c.get("exception")))
async def main():
    with mock.patch.object(D.socket, "socket", FSock):
        res=await pyairtouch.discover()
    print("t=",loop.time(), [(a.model, a.host, a.airtouch_id, a.name, a.serial, a._socket.port) for a in res])
loop.run_until_complete(main())
print([(t,b,d[:12]) for t,b,d,a in loop.udp.sent]); print("closed", loop.udp.closed, "errs", errs)
