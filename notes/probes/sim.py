"""Throw-away probe: virtual-time loop + fake TCP for pyairtouch (design grounding only)."""
import asyncio, selectors, collections, logging

class _VSelector(selectors.BaseSelector):
    def __init__(self, loop_ref): self._real = selectors.DefaultSelector(); self._loop_ref = loop_ref
    def register(self, *a, **k): return self._real.register(*a, **k)
    def unregister(self, *a, **k): return self._real.unregister(*a, **k)
    def modify(self, *a, **k): return self._real.modify(*a, **k)
    def get_map(self): return self._real.get_map()
    def close(self): self._real.close()
    def select(self, timeout=None):
        loop = self._loop_ref[0]
        if timeout is None:
            raise RuntimeError("virtual loop idle forever (deadlock)")
        if timeout > 0:
            loop._vtime += timeout
        return []

class VLoop(asyncio.SelectorEventLoop):
    def __init__(self):
        ref = [None]
        super().__init__(_VSelector(ref))
        ref[0] = self
        self._vtime = 0.0
        self._clock_resolution = 1e-9
    def time(self): return self._vtime

class FakeTransport(asyncio.Transport):
    def __init__(self, net, loop, protocol, cid):
        super().__init__()
        self.net, self.loop, self.protocol, self.cid = net, loop, protocol, cid
        self.closing = False; self.lost = False
        self.written = []  # (t, bytes)
        self.fail_on_write = None  # n-th write from now fails
        self.nwrites = 0
    def is_closing(self): return self.closing
    def get_extra_info(self, name, default=None): return default
    def write(self, data):
        if self.closing: return
        self.nwrites += 1
        if self.fail_on_write is not None and self.nwrites >= self.fail_on_write:
            self.fail_on_write = None
            self._fatal(ConnectionResetError("injected write error")); return
        self.written.append((self.loop.time(), bytes(data)))
        self.net.log.append((self.loop.time(), "tx", self.cid, bytes(data)))
    def _fatal(self, exc):
        if self.closing and self.lost: return
        self.closing = True
        self.loop.call_soon(self._lost, exc)
    def _lost(self, exc):
        if self.lost: return
        self.lost = True
        self.net.log.append((self.loop.time(), "closed", self.cid, repr(exc)))
        self.net.open_conns.discard(self.cid)
        self.protocol.connection_lost(exc)
    def close(self):
        if self.closing: return
        self.closing = True
        self.loop.call_soon(self._lost, None)
    def abort(self): self._fatal(None)
    # console side
    def feed(self, data):
        if not self.closing: self.protocol.data_received(data)
    def peer_eof(self):
        if self.closing: return
        keep = self.protocol.eof_received()
        if not keep: self.close()
    def peer_reset(self): self._fatal(ConnectionResetError("peer reset"))

class Net:
    def __init__(self, loop):
        self.loop = loop; self.log = []; self.conns = []; self.open_conns = set()
        self.script = collections.deque()  # entries: ("refuse", lat) | ("accept", lat)
        self.default = ("accept", 0.0)
        self.attempts = []
        self.on_accept = None
        self.max_open = 0
    async def open_connection(self, host=None, port=None, **kw):
        kind, lat = self.script.popleft() if self.script else self.default
        self.attempts.append((self.loop.time(), kind))
        self.log.append((self.loop.time(), "attempt", kind))
        if lat: await asyncio.sleep(lat)
        if kind == "refuse": raise ConnectionRefusedError("injected refuse")
        reader = asyncio.StreamReader(loop=self.loop)
        protocol = asyncio.StreamReaderProtocol(reader, loop=self.loop)
        cid = len(self.conns)
        tr = FakeTransport(self, self.loop, protocol, cid)
        protocol.connection_made(tr)
        writer = asyncio.StreamWriter(tr, protocol, reader, self.loop)
        self.conns.append(tr); self.open_conns.add(cid)
        self.max_open = max(self.max_open, len(self.open_conns))
        self.log.append((self.loop.time(), "open", cid))
        if self.on_accept: self.on_accept(tr)
        return reader, writer
