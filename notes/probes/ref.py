"""Independent (spec-derived) framing used by the probe console."""
import struct
def crc(b):
    c=0xFFFF
    for x in b:
        c^=x
        for _ in range(8): c=(c>>1)^0xA001 if c&1 else c>>1
    return bytes([c>>8, c&0xFF])
def at4_frame(to, frm, pid, mtype, data):
    body=bytes([to,frm,pid,mtype])+struct.pack(">H",len(data))+data
    return b"\x55\x55"+body+crc(body)
def at5_frame(to, frm, pid, mtype, data):
    body=bytes([to,frm,pid,mtype])+struct.pack(">H",len(data))+data
    inner=b"\x55\x55\x55\xaa"+body+crc(body)
    n=len(inner)-4+0  # internal header (10 incl prefix) + data + crc
    n=10+len(data)+2
    return b"\x55\x55\x55\xab\x00\x00"+struct.pack(">HH",n,n)+inner
def parse_stream(gen, buf):
    """Return list of (to,frm,pid,mtype,data) ; raises on bad framing."""
    out=[]; i=0
    while i<len(buf):
        if gen==5:
            assert buf[i:i+4]==b"\x55\x55\x55\xab", buf[i:i+8].hex()
            n1,n2=struct.unpack(">HH",buf[i+6:i+10]); assert n1==n2
            i+=10
        pre = b"\x55\x55" if gen==4 else b"\x55\x55\x55\xaa"
        assert buf[i:i+len(pre)]==pre, buf[i:i+8].hex()
        i+=len(pre)
        to,frm,pid,mt,ln=struct.unpack(">BBBBH",buf[i:i+6])
        data=buf[i+6:i+6+ln]; c=buf[i+6+ln:i+8+ln]
        assert crc(buf[i:i+6+ln])==c, "crc"
        if gen==5: assert n1==10+ln+2
        out.append((to,frm,pid,mt,bytes(data))); i+=8+ln
    return out
