import pyairtouch.comms.crc16 as C
def ref(b):
    crc=0xFFFF
    for x in b:
        crc^=x
        for _ in range(8):
            crc = (crc>>1)^0xA001 if crc&1 else crc>>1
    return crc.to_bytes(2,'big')
tbl=[]
for i in range(256):
    c=i
    for _ in range(8): c=(c>>1)^0xA001 if c&1 else c>>1
    tbl.append(c)
print("table ok:", tbl==C._CRC_TABLE, [i for i in range(256) if tbl[i]!=C._CRC_TABLE[i]])
c=C.Crc16Modbus()
print(c.calculate(bytes.fromhex("80b0012b0000")).hex(), "expect f52f")
print(c.calculate(bytes.fromhex("80b0012a000401020000")).hex(), "expect da59")
print(c.calculate(b"123456789").hex(), "expect 4b37")
import pyairtouch.at5.comms.utils as u
bad=[(k/10, u.encode_set_point(k/10)) for k in range(100,351) if u.encode_set_point(round(k/10,1))!=k-100]
print("at5 encode_set_point off:", len(bad), bad[:10])
import pyairtouch.at4.comms.utils as u4
bad=[(k/10, u4.encode_temperature(k/10)>>5) for k in range(-500,1500) if (u4.encode_temperature(k/10)>>5)!=k+500]
print("at4 encode_temperature off:", len(bad), bad[:5])
bad=[(k/10, u.encode_temperature(k/10)) for k in range(-500,1501) if (u.encode_temperature(k/10))!=k+500]
print("at5 encode_temperature off:", len(bad), bad[:5])
from pyairtouch.at5.comms import x1FFF13_zone_names as zn, x1F_ext as e5, registry as r5
m=zn.ZoneNamesMessage({0:"Living",1:"Kitchen"})
enc=zn.ZoneNamesEncoder()
print("zone names size", enc.size(m), "encoded", len(enc.encode(None,m)))
