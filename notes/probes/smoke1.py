"""Random smoke of socket-level invariants (probe only)."""
import asyncio, sys, logging, random, traceback
sys.path.insert(0, '/tmp/probe')
from sim import *; from ref import *
from unittest import mock
import pyairtouch.comms.socket as S
from pyairtouch.at4.comms import registry as r4, x2C_ac_ctrl as acc
logging.disable(logging.CRITICAL)
def mk(tag): return acc.AcControlMessage(ac_number=tag%4, power=acc.AcPowerControl.UNCHANGED, mode=acc.AcModeControl.UNCHANGED, fan_speed=acc.AcFanSpeedControl.UNCHANGED, set_point_control=acc.AcSetPointValue(tag%64))
def tag_of(data): return data[2]&0x3F
async def settle(n=30):
    for _ in range(n): await asyncio.sleep(0)
def one(seed, faults):
    rnd=random.Random(seed)
    loop = VLoop(); asyncio.set_event_loop(loop); net = Net(loop); errs=[]
    loop.set_exception_handler(lambda l,c: errs.append(c))
    ops=[]
    async def main():
        sock = S.AirTouchSocket(loop, "h", 9004, r4.INSTANCE)
        got=[]
        async def sub(h,m): got.append(m)
        sock.subscribe_on_message_received(sub)
        accepted=[]  # (tag, t, expiry)
        await sock.open_socket(); await settle()
        tag=0
        for step in range(rnd.randint(5,40)):
            r=rnd.random()
            if r<0.45:
                k=rnd.randint(1,3)
                for _ in range(k):
                    pend=[a for a in accepted if not a[3]]
                    tag+=1
                    pol=rnd.choice([S.RETRY_IDEMPOTENT,S.RETRY_NON_IDEMPOTENT])
                    ops.append(("send",tag))
                    try:
                        await sock.send(mk(tag), pol); accepted.append([tag, loop.time(), loop.time()+pol.max_lifetime, False])
                    except S.QueueOverflowError: ops.append(("overflow",))
            elif r<0.6:
                if net.conns and not net.conns[-1].closing:
                    ops.append(("drop",)); rnd.choice([net.conns[-1].peer_eof, net.conns[-1].peer_reset])(); 
                    if not faults: await settle()
            elif r<0.75:
                n=rnd.randint(0,3); lat=rnd.choice([0,0.125,1.0]); ops.append(("script",n,lat))
                net.script.extend([("refuse",0.0)]*n+[("accept",lat)])
            elif r<0.85 and faults:
                if net.conns and not net.conns[-1].closing: net.conns[-1].fail_on_write=net.conns[-1].nwrites+rnd.randint(1,3); ops.append(("failw",))
            else:
                dt=rnd.choice([0.125,0.5,1.0,2.0,2.125]); ops.append(("adv",dt)); await asyncio.sleep(dt)
            assert net.max_open<=1, ("max_open", net.max_open)
        net.script.clear(); net.default=("accept",0.0)
        await asyncio.sleep(8)
        assert sock.is_connected, "not connected after heal"
        cur=net.conns[-1]; assert not cur.closing
        cur.feed(at4_frame(0xB0,0x80,1,0x2B,b"")); await settle(); assert got, "probe not delivered"
        n0=len(cur.written); await sock.send(mk(63), S.RETRY_IDEMPOTENT); await settle(); assert len(cur.written)>n0, "probe cmd not written"
        assert len(net.open_conns)==1, net.open_conns
        # C01-ish when no faults: all accepted appear once, in order
        frames=[]
        for c in net.conns:
            buf=b"".join(d for t,d in c.written); frames+= [f for f in parse_stream(4,buf)]
        tags=[tag_of(f[4]) for f in frames if f[3]==0x2C][:-1]
        if not faults:
            exp=[a[0]%64 for a in accepted]
            assert tags==exp, (tags, exp)
        await sock.close(); await settle()
        assert not net.open_conns
        await asyncio.sleep(50); assert len(net.attempts)==natt[0] if natt else True
    natt=[]
    try:
        with mock.patch("asyncio.open_connection", net.open_connection):
            loop.run_until_complete(main())
        if errs: return ("loop-errs", errs, ops)
        left=[t for t in asyncio.all_tasks(loop) if not t.done()]
        if left: return ("left tasks", left, ops)
    except Exception as e:
        return (repr(e), traceback.format_exc().splitlines()[-3:], ops)
    finally: loop.close()
    return None
bad={}
for faults in (False, True):
    for seed in range(int(sys.argv[1]) if len(sys.argv)>1 else 1500):
        r=one(seed, faults)
        if r:
            key=(faults, r[0][:60]); bad.setdefault(key, []).append((seed, r))
for k,v in bad.items():
    v.sort(key=lambda x: len(x[1][2])); print(k, len(v), "e.g. seed", v[0][0], v[0][1][1], v[0][1][2])
print("done")
