# C12-ish: notification multiplicity, raising subscribers, identical repeats (AT5)
import asyncio, sys, logging
sys.path.insert(0, '/tmp/probe')
from p5lib import *
async def t(loop, net):
    con=Console5(net, loop)
    at=pyairtouch.connect(pyairtouch.AirTouchModel.AIRTOUCH_5, "h", 9005)
    assert await at.init()
    ac=at.air_conditioners[0]; z=ac.zones[0]
    log=[]
    def mk(name, boom=False):
        async def f(i):
            log.append((name,i))
            if boom: raise RuntimeError("boom")
        return f
    a=mk("ac"); b=mk("acstate"); c=mk("zone0"); d=mk("ac-boom",True); e=mk("at")
    ac.subscribe(a); ac.subscribe(a); ac.subscribe_ac_state(b); z.subscribe(c); ac.subscribe(d); at.subscribe(e)
    def zone_frame(temp): return con.c0(0x21,8,[bytes([0x40|zz,0x80,0x96,0x80,temp>>8,temp&255,0,0]) for zz in con.zones])
    con.send(0xC0, zone_frame(0x2E7)); await asyncio.sleep(0.1); print("identical zone frame:", log); log.clear()
    con.send(0xC0, zone_frame(0x2E8)); await asyncio.sleep(0.1); print("3 zones changed:", sorted(log)); log.clear()
    con.send(0xC0, con.c0(0x23,10,[bytes.fromhex("10137800 02da 0000 8000".replace(" ",""))])); await asyncio.sleep(0.1); print("ac fan changed:", sorted(log)); log.clear()
    con.send(0xC0, con.c0(0x23,10,[bytes.fromhex("10137801 02da 0000 8000".replace(" ",""))])); await asyncio.sleep(0.1); print("ac timer bit only:", sorted(log)); log.clear()
    con.send(0xC0, con.c0(0x23,10,[bytes.fromhex("10137801 02da 0005 8000".replace(" ",""))])); await asyncio.sleep(0.1); print("ac error code:", sorted(log), ac.error_info); log.clear()
    con.send(0x1F, b"\xff\x30\x01\x05"+b"1.0.4"); await asyncio.sleep(0.1); print("version:", log, at.update_available, at.console_versions); log.clear()
    ac.unsubscribe(a); con.send(0xC0, zone_frame(0x2E9)); await asyncio.sleep(0.1); print("after unsub a:", sorted(log)); log.clear()
    await at.shutdown()
loop, net = run(t)
