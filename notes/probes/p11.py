import asyncio, sys, logging, struct
sys.path.insert(0, '/tmp/probe')
import pyairtouch; print(pyairtouch.__file__)
from p10lib import *
async def t(loop, net):
    con=Console4(net, loop)
    at=pyairtouch.connect(pyairtouch.AirTouchModel.AIRTOUCH_4, "h", 9004)
    ok=await at.init(); print("init", ok, loop.time())
    # stop answering version requests
    orig=con.answer
    mode={"ans":False}
    def ans(f):
        if f[3]==0x1F and f[4][:2]==b"\xff\x30" and not mode["ans"]: return
        orig(f)
    con.answer=ans
    await asyncio.sleep(1400)
    print("events:", [(t,k,*r) for (t,k,*r) in net.log if k in ("open","closed","attempt")])
    print("ver reqs:", [t for t,f in con.reqs if f[3]==0x1f and f[4][:2]==b"\xff\x30"])
    mode["ans"]=True
    n=len(net.log)
    await asyncio.sleep(2000)
    print("answered phase events:", [(t,k,*r) for (t,k,*r) in net.log[n:] if k in ("open","closed","attempt")])
    await at.shutdown()
loop, net, errs = run(t); print("errs", errs)
