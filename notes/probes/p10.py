import asyncio, sys, logging, struct
sys.path.insert(0, '/tmp/probe')
from sim import *; from ref import *
from unittest import mock
import pyairtouch
logging.disable(logging.CRITICAL)
class Console4:
    def __init__(self, net, loop, zones=(0,1,2)):
        self.net=net; self.loop=loop; self.reqs=[]; self.zones=zones; net.on_accept=self.accept; self.temp=0x30c; self.answer_status=True
    def accept(self, tr):
        self.tr=tr; self.rx=bytearray(); orig=tr.write
        def w(data): orig(data); self.rx.extend(data); self.pump()
        tr.write=w
    def pump(self):
        try: frames=parse_stream(4, bytes(self.rx))
        except Exception: return
        self.rx.clear()
        for f in frames: self.reqs.append((self.loop.time(), f)); self.loop.call_soon(self.answer, f)
    def send(self, mt, data, pid=1):
        frm = 0x90 if mt==0x1F else 0x80
        if not self.tr.closing: self.tr.feed(at4_frame(0xB0, frm, pid, mt, data))
    def group_status(self): return b"".join(bytes([0x40|z,0xe4,0x1a,0x80])+struct.pack(">H",(self.temp<<5)) for z in self.zones)
    def answer(self, f):
        to,frm,pid,mt,data=f
        if mt==0x1F:
            sid=data[:2]
            if sid==b"\xff\x30": self.send(0x1F, b"\xff\x30\x00\x05"+b"1.3.3", pid)
            elif sid==b"\xff\x12": self.send(0x1F, b"\xff\x12"+b"".join(bytes([z])+f"Zone{z}".encode().ljust(8,b"\0") for z in self.zones), pid)
            elif sid==b"\xff\x11":
                bm=sum(1<<z for z in self.zones)
                self.send(0x1F, b"\xff\x11"+bytes([0,24])+b"UNIT".ljust(16,b"\0")+bytes([0,4,0x17,0x1d,17,31])+struct.pack("<H",bm), pid)
        elif mt==0x2D and self.answer_status: self.send(0x2D, bytes.fromhex("40421a0061800000"), pid)
        elif mt==0x37: self.send(0x37, bytes([0x80,0,0x80,0,0,0,0,0])*4, pid)
        elif mt==0x2B and self.answer_status: self.send(0x2B, self.group_status(), pid)
def run(coro_fn):
    loop = VLoop(); asyncio.set_event_loop(loop); net = Net(loop)
    errs=[]; loop.set_exception_handler(lambda l,c: errs.append(c))
    with mock.patch("asyncio.open_connection", net.open_connection):
        loop.run_until_complete(coro_fn(loop, net))
    return loop, net, errs
async def t(loop, net):
    con=Console4(net, loop)
    at=pyairtouch.connect(pyairtouch.AirTouchModel.AIRTOUCH_4, "h", 9004)
    ok=await at.init(); print("init", ok, loop.time())
    ac=at.air_conditioners[0]
    print(ac.name, ac.power_state, ac.selected_mode, ac.selected_fan_speed, ac.target_temperature, ac.current_temperature, [(z.zone_id, z.name, z.power_state, z.control_method, z.target_temperature, z.current_temperature, z.current_damper_percentage) for z in ac.zones])
    con.reqs.clear()
    calls=[]
    async def sub(i): calls.append((loop.time(), i))
    ac.subscribe(sub)
    # outage: peer reset; state changes while down; refuse 3 times
    net.script.extend([("refuse",0),("refuse",0),("refuse",0)])
    con.tr.peer_reset()
    await asyncio.sleep(0.25)
    await ac.set_power(pyairtouch.AcPowerControl.TURN_ON)   # queued while down
    con.temp=0x316
    await asyncio.sleep(10)
    print("reqs after outage:", [(t, hex(f[3]), f[4].hex()) for t,f in con.reqs]); print("attempts", net.attempts)
    print("zone temp now", ac.zones[0].current_temperature, "calls", calls)
    con.reqs.clear()
    await asyncio.sleep(1300)
    print("polls:", [(t, hex(f[3]), f[4].hex()) for t,f in con.reqs])
    await at.shutdown()
    for _ in range(3): await asyncio.sleep(0)
    tasks=[x for x in asyncio.all_tasks(loop) if x is not asyncio.current_task()]
    print("after shutdown tasks:", tasks, "timers:", [h for h in loop._scheduled if not h._cancelled])
loop, net, errs = run(t); print("errs", errs)
