import sys; sys.path.insert(0,'/tmp/probe')
from ref import *
from pyairtouch.at5.comms import registry as r5, hdr as h5, x1F_ext as e5, x1FFF13_zone_names as zn, x1FFF11_ac_ability as ab, x1FFF30_console_ver as cv, x1FFF10_err_info as er
from pyairtouch.at4.comms import registry as r4, hdr as h4
R=r5.INSTANCE
m=e5.ExtendedMessage(zn.ZoneNamesRequest("ALL"))
hd=h5.At5Header(0x90,0xb0,0x31,0x1f,R.get_encoder(0x1f).size(m))
eh=R.header_encoder.encode(hd); pl=R.get_encoder(0x1f).encode(hd,m)
fr=eh.header_bytes+pl+R.checksum_calculator.calculate(eh.checksum_data+pl)
print(fr.hex(' '))
print("expect 55 55 55 ab 00 00 00 0e 00 0e 55 55 55 aa 90 b0 31 1f 00 02 ff 13 b2 c8")
# decode AT5 ability example
data=bytes.fromhex("ff11 00 18 554e4954000000000000000000000000 00 04 17 1d 10 1f 12 1f".replace(" ",""))
hd=h5.At5Header(0xb0,0x90,1,0x1f,len(data))
print(R.get_decoder(0x1f).decode(data,hd).message)
data=bytes.fromhex("ff30 00 0b 312e302e332c312e302e33".replace(" ",""))
print(R.get_decoder(0x1f).decode(data,h5.At5Header(0xb0,0x90,1,0x1f,len(data))).message)
data=bytes.fromhex("ff10 00 08 45523a2046464645".replace(" ",""))
print(R.get_decoder(0x1f).decode(data,h5.At5Header(0xb0,0x90,1,0x1f,len(data))).message)
data=bytes.fromhex("ff13 00 06 4c6976696e67 01 07 4b69746368656e 02 07 426564726f6f6d".replace(" ",""))
print(R.get_decoder(0x1f).decode(data,h5.At5Header(0xb0,0x90,1,0x1f,len(data))).message)
# AC status example
data=bytes.fromhex("23 00 0000 000a 0002 10127800 02da 0000 8000 01426400 02e4 0000 8000".replace(" ",""))
data=bytes.fromhex("2300 0000 000a 0002 1012 78c0 02da 0000 8000 0142 64c0 02e4 0000 8000".replace(" ",""))
print(R.get_decoder(0xc0).decode(data,h5.At5Header(0xb0,0x80,1,0xc0,len(data))).message)
