#!/usr/bin/env python3
"""Evaluate a seeded change produced by an independent sub-agent.

  tools/seedeval.py <Cxx> [--src /tmp/seed/out_Cxx] [--checks C01,C07] [--tier quick]

1. in a fresh scratch worktree of /repo (under /tmp): the demonstration passes on the unmodified
   tree; with patch.diff applied the package imports, the pinned suite passes and the demonstration fails;
2. applies the patch to /repo (git -C /repo apply), runs the listed checks (default: the property's own
   check), and undoes it straight afterwards (git -C /repo checkout -- .);
3. prints a summary and writes <src>/eval.json.
"""
import json
import os
import shutil
import subprocess
import sys
import tempfile


def sh(cmd, **kw):
    return subprocess.run(cmd, shell=True, capture_output=True, text=True, **kw)


def main():
    args = sys.argv[1:]
    cid = args[0]
    src = f"/tmp/seed/out_{cid}"
    checks = [cid]
    tier = "quick"
    if "--src" in args:
        src = args[args.index("--src") + 1]
    if "--checks" in args:
        checks = args[args.index("--checks") + 1].split(",")
    if "--tier" in args:
        tier = args[args.index("--tier") + 1]
    patch = os.path.join(src, "patch.diff")
    demo = os.path.join(src, "demo.py")
    out = {"property": cid, "src": src}
    wt = tempfile.mkdtemp(prefix=f"seedverify_{cid}_", dir="/tmp")
    os.rmdir(wt)
    try:
        r = sh(f"git -C /repo worktree add -q --detach {wt} HEAD")
        if r.returncode:
            print("worktree failed", r.stderr)
            return 2
        env = f"PYTHONPATH={wt}"
        r0 = sh(f"cd {wt} && {env} timeout 120 /venv/bin/python {demo}")
        out["demo_unmodified_exit"] = r0.returncode
        ra = sh(f"git -C {wt} apply {patch}")
        out["patch_applies"] = ra.returncode == 0
        if ra.returncode:
            print("patch does not apply:", ra.stderr[:500])
        ri = sh(f"cd {wt} && {env} /venv/bin/python -c 'import pyairtouch, pyairtouch.at4.api, pyairtouch.at5.api, pyairtouch.factory'")
        out["imports"] = ri.returncode == 0
        rt = sh(f"cd {wt} && {env} /venv/bin/python -m pytest -q -p no:cacheprovider 2>&1 | tail -1")
        out["suite"] = rt.stdout.strip()
        r1 = sh(f"cd {wt} && {env} timeout 120 /venv/bin/python {demo}")
        out["demo_patched_exit"] = r1.returncode
        out["demo_patched_tail"] = (r1.stdout + r1.stderr)[-400:]
    finally:
        sh(f"git -C /repo worktree remove --force {wt}")
        shutil.rmtree(wt, ignore_errors=True)
    ok = out.get("demo_unmodified_exit") == 0 and out.get("patch_applies") and out.get("imports") and \
        "272 passed" in out.get("suite", "") and out.get("demo_patched_exit", 0) != 0
    out["confirmed"] = bool(ok)
    print(json.dumps({k: v for k, v in out.items() if k != "demo_patched_tail"}, indent=1))
    if not ok:
        json.dump(out, open(os.path.join(src, "eval.json"), "w"), indent=1)
        return 1
    if "--scratch" in args:
        # run the checks against a scratch copy of the patched package (VERIF_REPO) instead of patching /repo:
        # used while other background jobs read /repo
        tmp = tempfile.mkdtemp(prefix="pavseed_", dir="/var/tmp")
        results = {}
        try:
            shutil.copytree("/repo/pyairtouch", os.path.join(tmp, "pyairtouch"))
            ra = sh(f"patch -p1 -s -d {tmp} -i {patch}")
            if ra.returncode:
                print("apply to scratch failed", ra.stdout, ra.stderr)
                return 2
            for c in checks:
                r = sh(f"cd /verif && VERIF_REPO={tmp} ./check {c} --tier {tier} --no-evidence", timeout=3000)
                lines = [l for l in r.stdout.splitlines() if l.startswith(("VIOLATION", "[", "HARNESS", "  what"))]
                results[c] = {"exit": r.returncode, "lines": [l[:500] for l in lines[:6]]}
                print(f"--- check {c}: exit={r.returncode}")
                for l in lines[:4]:
                    print("   ", l[:300])
        finally:
            shutil.rmtree(tmp, ignore_errors=True)
        out["checks"] = results
        out["how"] = "scratch copy (VERIF_REPO)"
        out["caught_by"] = [c for c, r in results.items() if r["exit"] == 1]
        json.dump(out, open(os.path.join(src, "eval.json"), "w"), indent=1)
        print("caught_by:", out["caught_by"])
        return 0
    # ---- run the checks against /repo with the patch applied
    st = sh("git -C /repo status --porcelain")
    if st.stdout.strip():
        print("REFUSING: /repo working tree is not clean:", st.stdout)
        return 2
    results = {}
    try:
        ra = sh(f"git -C /repo apply {patch}")
        if ra.returncode:
            print("apply to /repo failed", ra.stderr)
            return 2
        for c in checks:
            r = sh(f"cd /verif && ./check {c} --tier {tier} --no-evidence", timeout=3000)
            lines = [l for l in r.stdout.splitlines() if l.startswith(("VIOLATION", "[", "HARNESS", "  what"))]
            results[c] = {"exit": r.returncode, "lines": [l[:500] for l in lines[:6]]}
            print(f"--- check {c}: exit={r.returncode}")
            for l in lines[:4]:
                print("   ", l[:300])
    finally:
        sh("git -C /repo checkout -- .")
        st = sh("git -C /repo status --porcelain")
        if st.stdout.strip():
            print("WARNING: /repo not clean after checkout:", st.stdout)
    out["checks"] = results
    out["caught_by"] = [c for c, r in results.items() if r["exit"] == 1]
    json.dump(out, open(os.path.join(src, "eval.json"), "w"), indent=1)
    print("caught_by:", out["caught_by"])
    return 0


if __name__ == "__main__":
    sys.exit(main())
