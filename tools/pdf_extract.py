import re, zlib, sys
def streams(data):
    for m in re.finditer(rb'stream\r?\n', data):
        s=m.end(); e=data.find(b'endstream', s)
        try: yield zlib.decompress(data[s:e])
        except Exception: pass
def unesc(b):
    out=bytearray(); i=0
    while i<len(b):
        c=b[i]
        if c==0x5c:
            i+=1; c=b[i]
            if c in b'nrtbf': out.append({110:10,114:13,116:9,98:8,102:12}[c])
            elif 48<=c<=55:
                j=i; v=0
                while j<len(b) and j<i+3 and 48<=b[j]<=55: v=v*8+b[j]-48; j+=1
                out.append(v&255); i=j-1
            else: out.append(c)
        else: out.append(c)
        i+=1
    return out.decode('latin-1')
def parse_cmap(d):
    m={}
    for blk in re.findall(rb'beginbfchar(.*?)endbfchar', d, re.S):
        for a,b in re.findall(rb'<([0-9A-Fa-f]+)>\s*<([0-9A-Fa-f]+)>', blk):
            m[int(a,16)]=bytes.fromhex(b.decode()).decode('utf-16-be','replace')
    for blk in re.findall(rb'beginbfrange(.*?)endbfrange', d, re.S):
        for a,b,c in re.findall(rb'<([0-9A-Fa-f]+)>\s*<([0-9A-Fa-f]+)>\s*<([0-9A-Fa-f]+)>', blk):
            a=int(a,16); b=int(b,16); c=int(c,16)
            for k in range(a,b+1): m[k]=chr(c+k-a)
    return m
def main(path):
    data=open(path,'rb').read()
    cmap={}
    ss=list(streams(data))
    for d in ss:
        if b'beginbfchar' in d or b'beginbfrange' in d: cmap.update(parse_cmap(d))
    page=0
    for d in ss:
        if b' Tm' not in d or b'TJ' not in d and b'Tj' not in d: continue
        page+=1
        items=[]
        for bt in re.findall(rb'BT(.*?)ET', d, re.S):
            tm=re.search(rb'([\d.\-]+) ([\d.\-]+) ([\d.\-]+) ([\d.\-]+) ([\d.\-]+) ([\d.\-]+) Tm', bt)
            if not tm: continue
            x=float(tm.group(5)); y=float(tm.group(6))
            txt=''
            for arr in re.findall(rb'\[(.*?)\]\s*TJ', bt, re.S):
                for tok in re.finditer(rb'\((?:\\.|[^\\)])*\)|<[0-9A-Fa-f]+>', arr):
                    t=tok.group(0)
                    if t[:1]==b'(' : txt+=unesc(t[1:-1])
                    else:
                        h=t[1:-1].decode()
                        txt+=''.join(cmap.get(int(h[i:i+4],16),'?') for i in range(0,len(h),4))
            for t in re.findall(rb'(\((?:\\.|[^\\)])*\))\s*Tj', bt):
                txt+=unesc(t[1:-1])
            items.append((y,x,txt))
        # group lines
        items.sort(key=lambda t:(-t[0],t[1]))
        print(f'\n======== stream {page} ========')
        cur=None; line=[]
        for y,x,t in items:
            if cur is None or abs(y-cur)>3:
                if line: print(render(line))
                line=[]; cur=y
            line.append((x,t))
        if line: print(render(line))
def render(line):
    line.sort()
    out=''
    for x,t in line:
        col=int((x-60)/4.6)
        if len(out)<col and t.strip(): out+=' '*(col-len(out))
        out+=t
    return out.rstrip()
main(sys.argv[1])
