#!/usr/bin/env python3
"""Run checks against a scratch copy of the package with a patch applied (never touches /repo).

  tools/patchrun.py <patch.diff> <ID>[,<ID>...] [--tier quick] [--seed N] [--base DIR]

The copy lives under /var/tmp and is removed afterwards.  Prints the tail of each check's output.
"""
import os
import shutil
import subprocess
import sys
import tempfile


def main():
    args = sys.argv[1:]
    tier, seed, base = "quick", None, "/repo"
    for flag in ("--tier", "--seed", "--base"):
        if flag in args:
            i = args.index(flag)
            v = args[i + 1]
            del args[i:i + 2]
            if flag == "--tier":
                tier = v
            elif flag == "--seed":
                seed = v
            else:
                base = v
    patch, ids = os.path.abspath(args[0]), args[1].split(",")
    tmp = tempfile.mkdtemp(prefix="pavpatch_", dir="/var/tmp")
    rc = 0
    try:
        shutil.copytree(os.path.join(base, "pyairtouch"), os.path.join(tmp, "pyairtouch"))
        r = subprocess.run(["patch", "-p1", "-s", "-d", tmp, "-i", patch], capture_output=True, text=True)
        if r.returncode:
            print("PATCH-ERROR", r.stdout[-300:], r.stderr[-300:])
            return 3
        env = dict(os.environ, VERIF_REPO=tmp)
        if seed:
            env["VERIF_SEED"] = seed
        for cid in ids:
            r = subprocess.run(["/verif/check", cid, "--tier", tier, "--no-evidence"], capture_output=True, text=True, env=env)
            lines = [l for l in r.stdout.splitlines() if not l.startswith("KNOWN-FINDING")]
            print(f"--- {cid}: exit={r.returncode}")
            for l in lines[-4:]:
                print("   ", l[:400])
            rc = max(rc, 0 if r.returncode == 1 else 1)
    finally:
        shutil.rmtree(tmp, ignore_errors=True)
    return rc


if __name__ == "__main__":
    sys.exit(main())
