#!/usr/bin/env python3
"""Store an evaluated seeded change: tools/seedstore.py <Cxx> <round> [--history "..."] (reads /tmp/seed/out_<Cxx>)."""
import json
import os
import shutil
import subprocess
import sys

HERE = os.path.dirname(os.path.dirname(os.path.abspath(__file__)))


def main():
    cid, rnd = sys.argv[1], int(sys.argv[2])
    hist = sys.argv[sys.argv.index("--history") + 1] if "--history" in sys.argv else None
    src = f"/tmp/seed/out_{cid}"
    ev = json.load(open(os.path.join(src, "eval.json")))
    notes = json.load(open(os.path.join(src, "notes.json")))
    if not ev.get("confirmed"):
        print("not confirmed")
        return 1
    dst = os.path.join(HERE, "seeded", f"{cid}-{rnd}")
    os.makedirs(dst, exist_ok=True)
    shutil.copy(os.path.join(src, "patch.diff"), dst)
    shutil.copy(os.path.join(src, "demo.py"), dst)
    head = subprocess.run("git -C /repo rev-parse --short HEAD", shell=True, capture_output=True, text=True).stdout.strip()
    meta = {
        "property": cid, "round": rnd,
        "origin": f"independent sub-agent given only the property text, the summaries of the earlier changes to avoid, and a scratch worktree of /repo at {head} (nothing from /verif)",
        "summary": notes.get("summary"), "needs_to_manifest": notes.get("needs_to_manifest"), "files_touched": notes.get("files_touched"),
        "confirmed_by_me": {"how": "tools/seedeval.py: fresh scratch worktree under /tmp; demo on unmodified tree; git apply patch.diff; import; pinned suite; demo again",
                            **{k: ev.get(k) for k in ("demo_unmodified_exit", "patch_applies", "imports", "suite", "demo_patched_exit")}},
        "checks_run_against_it": {c: {"exit": r["exit"], "first_lines": r["lines"][:3]} for c, r in ev.get("checks", {}).items()},
        "caught_by": ev.get("caught_by", []),
        "how_run": f"scratch copy of the patched package under /var/tmp (VERIF_REPO), ./check {cid} --tier quick --no-evidence; copy removed",
    }
    if hist:
        meta["history"] = hist
    json.dump(meta, open(os.path.join(dst, "meta.json"), "w"), indent=1)
    print(dst, meta["caught_by"])
    return 0


if __name__ == "__main__":
    sys.exit(main())
