#!/usr/bin/env python3
"""Mutation run: which small, test-passing changes to the package do the checks notice?

  tools/mutate.py --files pyairtouch/comms/socket.py[,..] [--sample N] [--par 4] [--out mutants.jsonl] [--checks C01,C07]

For every selected mutant (AST operators: comparison / arithmetic / boolean operator swaps, integer constants +-1,
True<->False, `not` removal, `if` condition forced, statement deletion of expression statements / augmented
assignments / assignments to attributes) the tool builds a scratch copy of the package under /var/tmp (never /repo),
runs the pinned test-suite against it and - if the suite still passes - the checks anchored in the mutated file
(properties.jsonl anchors) or the ones given.  One JSON line per mutant goes to --out.  Copies are removed.
A mutant that no check notices is a SURVIVOR: either equivalent for the listed properties or a gap.
"""
import ast
import copy
import fnmatch
import hashlib
import json
import os
import shutil
import subprocess
import sys
import tempfile
from concurrent.futures import ThreadPoolExecutor

HERE = os.path.dirname(os.path.dirname(os.path.abspath(__file__)))
REPO = os.environ.get("VERIF_REPO", "/repo")

CMP = {ast.Lt: ast.LtE, ast.LtE: ast.Lt, ast.Gt: ast.GtE, ast.GtE: ast.Gt, ast.Eq: ast.NotEq, ast.NotEq: ast.Eq,
       ast.Is: ast.IsNot, ast.IsNot: ast.Is, ast.In: ast.NotIn, ast.NotIn: ast.In}
BIN = {ast.Add: ast.Sub, ast.Sub: ast.Add, ast.Mult: ast.FloorDiv, ast.FloorDiv: ast.Mult, ast.Div: ast.Mult,
       ast.LShift: ast.RShift, ast.RShift: ast.LShift, ast.BitAnd: ast.BitOr, ast.BitOr: ast.BitAnd, ast.Mod: ast.FloorDiv}


def sites(tree):
    """Yield (description, path) for every mutation site; path = list of (field, index|None) from the module."""
    out = []

    def walk(node, path):
        for field, value in ast.iter_fields(node):
            if isinstance(value, list):
                for i, v in enumerate(value):
                    if isinstance(v, ast.AST):
                        visit(v, path + [(field, i)])
            elif isinstance(value, ast.AST):
                visit(value, path + [(field, None)])

    def visit(node, path):
        ln = getattr(node, "lineno", 0)
        if isinstance(node, ast.Expr) and ast.unparse(node).startswith(("_LOGGER.", "logging.")):
            return  # log statements: equivalent by construction
        if isinstance(node, ast.If) and "TYPE_CHECKING" in ast.unparse(node.test):
            return
        if isinstance(node, ast.Compare):
            for k, op in enumerate(node.ops):
                if type(op) in CMP:
                    out.append((f"L{ln}: compare {type(op).__name__}->{CMP[type(op)].__name__}", path, ("cmp", k)))
        elif isinstance(node, ast.BinOp) and type(node.op) in BIN:
            out.append((f"L{ln}: binop {type(node.op).__name__}->{BIN[type(node.op)].__name__}", path, ("bin",)))
        elif isinstance(node, ast.BoolOp):
            out.append((f"L{ln}: boolop {type(node.op).__name__} swapped", path, ("bool",)))
        elif isinstance(node, ast.UnaryOp) and isinstance(node.op, ast.Not):
            out.append((f"L{ln}: 'not' removed", path, ("not",)))
        elif isinstance(node, ast.Constant):
            if isinstance(node.value, bool):
                out.append((f"L{ln}: {node.value}->{not node.value}", path, ("const", not node.value)))
            elif isinstance(node.value, int):
                out.append((f"L{ln}: {node.value}->{node.value + 1}", path, ("const", node.value + 1)))
                if node.value != 0:
                    out.append((f"L{ln}: {node.value}->{node.value - 1}", path, ("const", node.value - 1)))
            elif isinstance(node.value, float):
                out.append((f"L{ln}: {node.value}->{node.value * 2}", path, ("const", node.value * 2)))
        elif isinstance(node, (ast.If, ast.While)) and not isinstance(node.test, ast.Constant):
            out.append((f"L{ln}: {type(node).__name__.lower()} condition -> False", path, ("test", False)))
            if isinstance(node, ast.If):
                out.append((f"L{ln}: if condition -> True", path, ("test", True)))
        if isinstance(node, (ast.Expr, ast.AugAssign)) and not (isinstance(node, ast.Expr) and isinstance(node.value, ast.Constant)):
            out.append((f"L{ln}: statement deleted: {ast.unparse(node)[:60]}", path, ("del",)))
        elif isinstance(node, ast.Assign) and all(isinstance(t, ast.Attribute) for t in node.targets):
            out.append((f"L{ln}: statement deleted: {ast.unparse(node)[:60]}", path, ("del",)))
        walk(node, path)

    # skip docstrings / type-only code: fine, they are Constants in Expr (excluded above)
    walk(tree, [])
    return out


def get(node, path):
    for field, idx in path:
        node = getattr(node, field)
        if idx is not None:
            node = node[idx]
    return node


def apply(tree, path, how):
    t = copy.deepcopy(tree)
    parent = get(t, path[:-1])
    field, idx = path[-1]
    node = get(t, path)
    kind = how[0]
    if kind == "cmp":
        node.ops[how[1]] = CMP[type(node.ops[how[1]])]()
    elif kind == "bin":
        node.op = BIN[type(node.op)]()
    elif kind == "bool":
        node.op = ast.Or() if isinstance(node.op, ast.And) else ast.And()
    elif kind == "not":
        new = node.operand
        if idx is None:
            setattr(parent, field, new)
        else:
            getattr(parent, field)[idx] = new
    elif kind == "const":
        node.value = how[1]
    elif kind == "test":
        node.test = ast.Constant(value=how[1])
    elif kind == "del":
        new = ast.Pass()
        if idx is None:
            setattr(parent, field, new)
        else:
            getattr(parent, field)[idx] = new
    ast.fix_missing_locations(t)
    return ast.unparse(t)


# the checks most likely to notice a change in a file, in that order (anchors of properties.jsonl, ranked by hand)
PRIORITY = {
    "pyairtouch/comms/socket.py": ["C07", "C01", "C02", "C16", "C13", "C15", "C06"],
    "pyairtouch/comms/heartbeat.py": ["C08", "C15"],
    "pyairtouch/comms/discovery.py": ["C18"],
    "pyairtouch/comms/crc16.py": ["C06"],
    "pyairtouch/comms/encoding.py": ["C05", "C03"],
    "pyairtouch/comms/__init__.py": ["C17", "C03", "C07"],
    "pyairtouch/at4/api.py": ["C10", "C11", "C09", "C14", "C12", "C19", "C08", "C02", "C15"],
    "pyairtouch/at5/api.py": ["C10", "C11", "C09", "C14", "C12", "C19", "C08", "C02", "C15"],
}


def checks_for(rel, props):
    if rel in PRIORITY:
        return PRIORITY[rel]
    if "/comms/" in rel:
        return ["C05", "C03", "C04", "C17"]
    out = []
    for p in props:
        for pat in p["anchors"]["files"]:
            if fnmatch.fnmatch(rel, pat) or rel == pat:
                out.append(p["id"])
                break
    return sorted(set(out))


def run_one_safe(job):
    try:
        return run_one(job)
    except Exception as exc:  # noqa: BLE001
        return {"id": job[-1], "file": job[0], "mutation": job[1], "status": f"tool-error {exc!r}"}


def run_one(job):
    rel, desc, path, how, src_tree, checks, jobs, idx = job
    rec = {"id": idx, "file": rel, "mutation": desc}
    try:
        new_src = apply(src_tree, path, how)
    except Exception as exc:  # noqa: BLE001
        rec["status"] = f"apply-error {exc!r}"
        return rec
    tmp = tempfile.mkdtemp(prefix="pavmut_", dir="/var/tmp")
    try:
        shutil.copytree(os.path.join(REPO, "pyairtouch"), os.path.join(tmp, "pyairtouch"))
        shutil.copytree(os.path.join(REPO, "tests"), os.path.join(tmp, "tests"))
        shutil.copy(os.path.join(REPO, "pyproject.toml"), tmp)
        open(os.path.join(tmp, rel), "w").write(new_src)
        env = dict(os.environ, PYTHONPATH=tmp, PYTHONDONTWRITEBYTECODE="1")
        try:
            r = subprocess.run(["/venv/bin/python", "-m", "pytest", "-q", "-x", "-p", "no:cacheprovider", "tests"], cwd=tmp, env=env,
                               capture_output=True, text=True, timeout=300)
        except subprocess.TimeoutExpired:
            rec["status"] = "tests-timeout"
            return rec
        if r.returncode != 0:
            rec["status"] = "killed-by-tests"
            return rec
        rec["status"] = "passes-tests"
        rec["checks"] = {}
        env = dict(os.environ, VERIF_REPO=tmp, VERIF_JOBS=str(jobs), PAV_SHARD_TIMEOUT="240")
        for c in checks:
            try:
                r = subprocess.run([os.path.join(HERE, "check"), c, "--tier", "quick", "--no-evidence"], env=env, capture_output=True,
                                   text=True, timeout=1500)
                rec["checks"][c] = r.returncode
                if r.returncode == 1:
                    w = [l for l in r.stdout.splitlines() if l.startswith("  what")]
                    rec.setdefault("what", (w[0][:200] if w else ""))
                    break  # noticed
            except subprocess.TimeoutExpired:
                rec["checks"][c] = "timeout"
        rec["noticed"] = any(v == 1 for v in rec["checks"].values())
        rec["inconclusive"] = (not rec["noticed"]) and any(v not in (0, 1) for v in rec["checks"].values())
    finally:
        shutil.rmtree(tmp, ignore_errors=True)
    return rec


def main():
    a = sys.argv[1:]

    def opt(name, default=None):
        return a[a.index(name) + 1] if name in a else default
    files = opt("--files").split(",")
    sample = int(opt("--sample", "0"))
    par = int(opt("--par", "4"))
    out = opt("--out", os.path.join(HERE, "notes", "mutants.jsonl"))
    forced = opt("--checks")
    salt = opt("--salt", "0")
    props = [json.loads(l) for l in open(os.path.join(HERE, "properties.jsonl"))]
    jobs = []
    for rel in files:
        src = open(os.path.join(REPO, rel)).read()
        tree = ast.parse(src)
        checks = forced.split(",") if forced else checks_for(rel, props)
        for desc, path, how in sites(tree):
            jobs.append([rel, desc, path, how, tree, checks])
    jobs.sort(key=lambda j: hashlib.blake2b(f"{salt}/{j[0]}/{j[1]}".encode(), digest_size=8).digest())
    if sample:
        jobs = jobs[:sample]
    done = set()
    if os.path.exists(out):
        for l in open(out):
            try:
                r = json.loads(l)
                done.add((r["file"], r["mutation"]))
            except ValueError:
                pass
    jobs = [j for j in jobs if (j[0], j[1]) not in done]
    again = opt("--survivors-of")
    if again:
        # second pass: only the mutants recorded as survivors in that file, against --checks
        surv = set()
        for l in open(again):
            r = json.loads(l)
            if r.get("status") == "passes-tests" and not r.get("noticed"):
                surv.add((r["file"], r["mutation"]))
        jobs = [j for j in jobs if (j[0], j[1]) in surv]
    per = max(2, 16 // par)
    jobs = [tuple(j) + (per, i) for i, j in enumerate(jobs)]
    print(f"{len(jobs)} mutants selected", flush=True)
    os.makedirs(os.path.dirname(out), exist_ok=True)
    stat = {}
    from concurrent.futures import as_completed
    with open(out, "a") as fh, ThreadPoolExecutor(par) as ex:
        for fut in as_completed([ex.submit(run_one_safe, j) for j in jobs]):
            rec = fut.result()
            fh.write(json.dumps(rec) + "\n")
            fh.flush()
            key = rec["status"].split(" ")[0] if rec["status"] != "passes-tests" else ("noticed" if rec["noticed"] else ("inconclusive" if rec["inconclusive"] else "SURVIVED"))
            stat[key] = stat.get(key, 0) + 1
            if key in ("SURVIVED", "inconclusive"):
                print(key, rec["file"], rec["mutation"], rec.get("checks"), flush=True)
    print(stat)
    return 0


if __name__ == "__main__":
    sys.exit(main())
