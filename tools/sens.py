#!/usr/bin/env python3
"""Sensitivity probe: apply one textual mutation to a scratch copy of the package
(outside /repo and /verif), run a check against it, remove the copy.

  tools/sens.py <ID> <relative file> <old text> <new text> [--nth K] [--tier quick]

Exit status: 0 if the check caught the mutation (exit 1 + VIOLATION line), 1 otherwise.
"""
import os, shutil, subprocess, sys, tempfile

def main():
    args = sys.argv[1:]
    nth = None
    tier = "quick"
    if "--nth" in args:
        i = args.index("--nth"); nth = int(args[i + 1]); del args[i:i + 2]
    if "--tier" in args:
        i = args.index("--tier"); tier = args[i + 1]; del args[i:i + 2]
    cid, rel, old, new = args
    old = old.encode().decode("unicode_escape"); new = new.encode().decode("unicode_escape")
    tmp = tempfile.mkdtemp(prefix="pavsens_", dir="/var/tmp")
    try:
        shutil.copytree("/repo/pyairtouch", os.path.join(tmp, "pyairtouch"))
        p = os.path.join(tmp, rel)
        s = open(p).read()
        cnt = s.count(old)
        if cnt == 0:
            print("MUTATION-ERROR: old text not found"); return 3
        if nth is None:
            if cnt != 1:
                print(f"MUTATION-ERROR: old text occurs {cnt} times; use --nth"); return 3
            s = s.replace(old, new)
        else:
            parts = s.split(old)
            s = old.join(parts[:nth + 1]) + new + old.join(parts[nth + 1:])
        open(p, "w").write(s)
        r = subprocess.run([sys.executable, "-c", f"import sys; sys.path.insert(0,{tmp!r}); import pyairtouch, pyairtouch.at4.api, pyairtouch.at5.api"],
                           capture_output=True, text=True)
        if r.returncode != 0:
            print("MUTATION-ERROR: mutant does not import:", r.stderr[-300:]); return 3
        env = dict(os.environ, VERIF_REPO=tmp)
        r = subprocess.run(["/verif/check", cid, "--tier", tier, "--no-evidence"], env=env, capture_output=True, text=True)
        lines = [l for l in r.stdout.splitlines() if l.startswith(("VIOLATION", "[", "HARNESS", "  what", "KNOWN"))]
        print(f"exit={r.returncode}")
        for l in lines[:6]:
            print("  " + l[:400])
        if r.returncode not in (0, 1):
            print(r.stdout[-1500:]); print(r.stderr[-1500:])
        return 0 if r.returncode == 1 else 1
    finally:
        shutil.rmtree(tmp, ignore_errors=True)

sys.exit(main())
