#!/usr/bin/env python3
"""Regenerate /verif/MANIFEST.json from the table below (single source of truth)."""
import json
import os

VERIF = os.path.dirname(os.path.dirname(os.path.abspath(__file__)))

TRUST = "trusts CPython 3.12 asyncio streams, the fake transport's fidelity to selector transports and the reference codec (self-tested against every vendor example frame)"

CHECKS = {
    "C01": ("exploration", "stateful property-based testing (Hypothesis rule-based state machine, history invariant + reference model)",
            "Rule-based generation of socket histories (send batches from several tasks, link loss, connect scripts, clock advances, write pauses, runs past the 256 packet-id wrap) on a virtual-time loop and fake network; after every step the bytes at the simulated console, parsed by an independent framing, must equal the accepted messages in order, once each, at the right instant. Sampled histories, bounded depth.",
            "no write faults / expiry / overflow here (C02, C16); link loss injected at quiescent instants; " + TRUST),
    "C02": ("fault_enumeration", "property-based fault injection (Hypothesis-generated fault scripts placed relative to message deadlines; per-message attribution of frame starts)",
            "Socket layer: every message is submitted with a unique packet id so that each frame start on the simulated wire (complete or cut by a fault) is attributed to one submitted message; generated scripts place write faults on the 1st/2nd/3rd write of a frame, fault chains over successive connections, resets, refusals, connect latencies and clock advances at L-1/8, L, L+1/8 of the tracked message's lifetime; attempts <= 1 + retries, nothing written at or after expiry, and a single transient failure re-sends the message first on the next connection. API layer: public commands and the client's own requests on an initialised client under the same faults; toggles at most once, refresh / heartbeat / error / poll requests never repeated, idempotent commands re-sent first; expected classes from docs/design.md.",
            "a failed write transmits nothing; stock policies are judged against the documented (retries, lifetime) table; " + TRUST),
    "C03": ("exploration", "property-based testing (Hypothesis @given, round-trip + independent reference parser)",
            "Hypothesis-generated messages of all 36 classes over their protocol domains go through the real send path and back through the real receive path; framing, declared/announced/actual lengths and CRC are judged by an independent spec-derived parser. Sampled, not exhaustive.",
            TRUST),
    "C04": ("exploration", "property-based testing + exhaustive sub-grids (independent spec-derived command reader as oracle)",
            "On initialised clients against generated installations (AC numbers 0..3/0..15, zones 0..15, abilities, limits) every public control call is issued with every enum argument, all temperatures on the 0.05 grid from min-3 to max+3 (plus 0.01-grid samples), all damper values and quick timers; the single frame captured at the simulated console is read by an independent reader of the vendor control tables and must address the intended entity, carry exactly the requested attribute (rounding within half a step, clamping for ACs) and read keep everywhere else, with the documented addresses, sub-header and CRC.",
            "zone set-points within 10..35 degC; undocumented timer messages read with the docstring layout; " + TRUST),
    "C05": ("exploration", "exhaustive per-field / per-byte-pair enumeration + property-based testing (differential against an independent spec reader)",
            "For each of the 14 status/ability/name/version/error decoders, Hypothesis-generated base payloads (written by an independent console writer) are mutated exhaustively per byte (256 values) and per adjacent byte pair (65 536 values; quick: pairs straddling multi-byte fields) over one record, with generated record counts, AT5 strides and string shapes; every decode is compared field by field with an independent reading of the vendor tables (value / ABSENT / UNDEFINED => equal / None / must reject).",
            "payloads the documents give no reading for carry no requirement; undocumented timer messages use the docstring layout; the three AC sentinel cases the float data model cannot express are recorded known findings with the misreading pinned; " + TRUST),
    "C06": ("fault_enumeration", "exhaustive enumeration + property-based fault injection (Hypothesis) with differential oracle",
            "CRC compared with the bit-serial definition on all 1..2-byte strings (thorough: all 1..3-byte strings) and generated long ones; every single-bit, (for short frames every) double-bit and burst<=16 pattern over generated frames must fail validate(); generated corruptions on a live socket are judged differentially against an independent receive model.",
            "CRC-16 detection guarantee assumed only for the stated pattern families on frames < 4 KiB; re-framing after a length-field flip is decided by the reference receive model; " + TRUST),
    "C07": ("fault_enumeration", "stateful property-based fault injection (Hypothesis rule-based state machine, invariants + post-script probes)",
            "Generated fault scripts (refusals, latencies, EOF, reset, garbage, bad CRC, truncation, undecodable payloads, write faults, unencodable messages, raising subscribers, external resets, two faults in one instant) against a live socket; invariant: never two open connections, no dead client task; after the network heals the client must be connected within 11 s of virtual time, deliver a probe frame and write a probe command, and have closed every abandoned connection.",
            "healing bound 11 s virtual; desynchronised inbound streams are dropped by the simulated console before probing; " + TRUST),
    "C08": ("exploration", "property-based testing (Hypothesis @given answer patterns, independent timeline model on a virtual clock)",
            "Generated answer patterns over 2..12 consecutive heartbeats (prompt / late / never, silence from the first heartbeat, after a response, after a reset; unsolicited responses; decoy frames; link outages at a heartbeat instant) for both generations and for a bare HeartbeatManager with custom (interval, timeout); the instants of version requests and of client-side closes observed at the simulated console must equal those of an independent timeline model (request every interval while connected, reset exactly when no response arrived for the timeout).",
            "exact coincidences with a deadline are discarded; reconnection after a reset is immediate; " + TRUST),
    "C09": ("exploration", "property-based testing (Hypothesis @given over installation x console behaviour, reference handshake model)",
            "Generated installations (1..4 ACs, 0..16 zones, AT4 bitmap / old single / old multi-AC, AT5 ranges and zero-zone echo) and console behaviours (delays, segmentation, unsolicited / duplicate / unknown / foreign-addressed frames, silence from step k, connect latency below/above 5 s) drive connect()+init() against a simulated console; request order, return value and time of init(), and the exposed ACs/zones/getters are compared with a reference handshake model and reference object model.",
            "installations are self-consistent; answer instants never tie exactly with the 5 s deadline; " + TRUST),
    "C10": ("exploration", "property-based testing (Hypothesis-generated frame histories, reference object model)",
            "Generated histories of AC / zone / timer / version / error frames (any entity order, repeats, partial frames, unknown ids, all defined enum values) are pushed by a simulated console at an initialised client; after every frame every public getter is compared with a reference model written from the API docstrings and vendor tables.",
            "only defined protocol values; expected error text = latest text the console sent for that AC; " + TRUST),
    "C11": ("exploration", "exhaustive enumeration over ability bitmaps + property-based testing (oracle from the console's own ability/status report)",
            "Every ability bitmap (thorough: all 4096 AT4 + 8192 AT5; quick: 1024 per generation) goes through a real handshake; every AcMode / AcFanSpeed / AcPowerControl / ZonePowerState, damper -5..105, temperatures on 0.05 / 0.01 grids around the limits incl. ties, sensor present/absent, turbo supported/unsupported and all reported timer states x set/clear are requested: unsupported => ValueError and zero bytes; supported => exactly one frame with the documented reading, rounding and clamping; the untouched timer equals the last report; supported_* getters equal the ability report.",
            "zone set-points within 10..35 degC; undocumented timer messages read with the docstring layout; " + TRUST),
    "C12": ("exploration", "property-based testing (Hypothesis-generated histories with subscription changes, per-callable invocation bounds from the reference model)",
            "Generated frame histories (biased to exact repeats and single-attribute changes) interleaved with subscribe / double-subscribe / unsubscribe over pools of callables per scope, some raising; for every frame and callable the invocation count must lie between the lower bound (exposed change => >= 1) and the upper bound (identical record => 0; at most once per changed record) with the right identifier, AC-state subscribers never hear zone-only changes, unsubscribed callables are never called, and reception continues.",
            "frames differing only in unexposed bits may or may not notify; invocation order not compared; " + TRUST),
    "C13": ("exploration", "exhaustive cut enumeration + property-based testing (metamorphic relation)",
            "Generated frame streams are delivered under every single cut, every pair (<= 40 bytes; thorough: every <= 3 cuts for <= 64 bytes), generated multi-cuts and byte-by-byte, with generated scheduling between segments; delivery must equal the unsegmented delivery and the generated messages, without reset.",
            "frames come from the library's encoder (round trip is C03); " + TRUST),
    "C14": ("fault_enumeration", "property-based fault injection (Hypothesis-generated outage / silence histories, reference model + independent poll timeline)",
            "Generated histories on an initialised client: link losses with 0..20 refusals and connect latency, console state changes made while the link is down (or none), delayed refresh answers, AT4 group status frames at gaps around 300 s and silences up to 2000 s. On every re-established connection the AC status and zone/group status requests must be seen in the instant of the open before anything else; afterwards every getter equals the reference model of the console's current state and subscribers fire only for entities whose exposed attributes changed; the instants of AT4 group status polls must equal an independent timeline (300 s after the last group status / poll while connected).",
            "exact coincidences of a poll deadline with another event are discarded; " + TRUST),
    "C15": ("fault_enumeration", "property-based fault injection (Hypothesis: scenario x shutdown instant drawn from the scenario's own event instants)",
            "Each generated scenario (connect refusals / latency, console delays or silence at handshake step k, link losses with back-off, pending sends) is dry-run to collect its event instants; shutdown() / AirTouchSocket.close() is then called at such an instant -1/16, +0 (both same-instant orders) or +1/16 s. After it returns: no connection attempt, connection or byte during 10 000 s on a network that would accept, every connection closed, no client task or timer left in the loop, send / commands on retained objects raise NotOpenError, model cleared; an optional init() against a different installation must succeed and expose only the new installation.",
            "harness-owned timers are cancelled at the shutdown instant; reports about orphaned subscriber tasks are not judged; " + TRUST),
    "C16": ("exploration", "stateful property-based testing (Hypothesis rule-based state machine, reference model of the pending buffer)",
            "Generated sends with mixed lifetimes and clock advances (exact expiry instants included) on a socket whose link is down, closed or never opened, then a connection; overflow / not-open errors and the frames that appear on connection must match a list model of unexpired entries.",
            "now == accept + lifetime counts as expired; " + TRUST),
    "C17": ("exploration", "enumeration of unknown ids + property-based structured mutation (differential against independent receive model and readers)",
            "All 256 type bytes and all 0xC0 sub-types (exhaustive) plus generated 0x1F sub-ids with generated payloads must be delivered as one UnsupportedMessage with id and payload unchanged on an undisturbed connection; generated valid console frames are mutated (re-checksummed flips/inserts/deletes, raw damage, truncation + EOF, splices, random bytes) and fed to a live socket: deliveries must be exactly what the independent receive model accepts, every delivered status message must equal the independent reading (undefined codes never delivered, defined frames never dropped), the receive task must not die, and intact probe frames must be delivered afterwards.",
            "payloads without a documented reading may be delivered or rejected; desynchronised streams are dropped by the simulated console before probing; " + TRUST),
    "C18": ("exploration", "property-based testing over a fake UDP endpoint on a virtual clock (independent grammar parser + timeline model)",
            "Generated datagram sets (grammar-valid responses with commas in the last field and arbitrary UTF-8, mutated, echoed requests, the other generation's responses, random bytes) with generated arrival times drive AirTouchDiscoverer.search() per generation, pyairtouch.discover() and unicast mode; request bytes, destination, the instants 0 / 0.5 / 1.0 s, the return instant, endpoint closure, the returned set (exact fields, duplicates collapsed) and the model/host/port of the returned clients are compared with an independent parser of the vendor format and a timeline model; match()/decode() are fuzzed for totality.",
            "datagrams never arrive exactly on a request instant; fake datagram transport mirrors _SelectorDatagramTransport (exceptions from datagram_received go to the loop handler, endpoint stays open); " + TRUST),
    "C19": ("exploration", "differential property-based testing (AT4 client vs AT5 client in lock-step, plus reference model on each side)",
            "Generated installations expressible in both protocols and lock-step histories of status pushes and public calls (including arguments outside the common ability) drive an AT4 and an AT5 client against equivalent simulated consoles; after every step every commonly supported getter must be equal, each call must be accepted or rejected on both, and the independent semantic readings of the two emitted frames must be equal modulo the documented differences; each side is also judged against the reference model.",
            "documented differences (resolution, away/sleep, bypass, per-mode limits) excluded; integer temperatures; AT4 timer-control records of other ACs not compared; " + TRUST),
}

NOT_APPLICABLE = {}


def main():
    props = [json.loads(l) for l in open(os.path.join(VERIF, "properties.jsonl"))]
    ids = [p["id"] for p in props]
    checks = []
    for cid in ids:
        if cid not in CHECKS:
            continue
        level, technique, text, note = CHECKS[cid]
        checks.append({
            "property_id": cid,
            "quick_cmd": f"./check {cid} --tier quick",
            "thorough_cmd": f"./check {cid} --tier thorough",
            "evidence_file": f"evidence/{cid}.json",
            "replay_cmd_template": f"./check {cid} --replay {{path}}",
            "engine": "runner",
            "level_claimed": {"category": level, "text": text, "design_ref": f"DESIGN.md §5 {cid}"},
            "level_note": note,
            "technique": technique,
        })
    na = []
    for cid in ids:
        if cid in CHECKS:
            continue
        reason = NOT_APPLICABLE.get(cid, "check not built yet at this commit (in progress; the technique applies, see DESIGN.md §5)")
        na.append({"property_id": cid, "reason": reason})
    m = {
        "version": 1,
        "setup_cmd": "sh /verif/setup.sh",
        "hooks": {
            "guard": "PYAIRTOUCH_VERIF",
            "enable": "no source hooks: all interception (asyncio.open_connection, event loop, socket.socket, create_datagram_endpoint) is done from /verif; checks import pyairtouch from /repo's working tree in a fresh interpreter",
            "baseline_off_cmd": "cd /repo && /venv/bin/python -m pytest -ra -q -p no:cacheprovider --timeout=900 --continue-on-collection-errors",
            "source_commits": [],
            "add_only": True,
        },
        "engines": [
            {"name": "vloop", "path": "pav/vloop.py", "serves_properties": ids, "kind_free_text": "deterministic virtual-time asyncio event loop (harness owns clock and schedule)"},
            {"name": "fakenet", "path": "pav/fakenet.py", "serves_properties": ids, "kind_free_text": "scripted fake TCP/UDP transports with fault injection"},
            {"name": "refproto", "path": "pav/refproto.py", "serves_properties": ids, "kind_free_text": "independent spec-derived CRC / framing / stream parser (oracle)"},
            {"name": "refcodec", "path": "pav/refcodec.py", "serves_properties": ["C02", "C04", "C05", "C08", "C09", "C10", "C11", "C12", "C14", "C15", "C17", "C19"], "kind_free_text": "independent spec-derived message readers / writers (oracle)"},
            {"name": "runner", "path": "pav/runner.py", "serves_properties": ids, "kind_free_text": "sharded Hypothesis / enumeration driver, evidence, replay, known findings (./check <id>)"},
        ],
        "checks": checks,
        "not_applicable": na,
        "notes": "All checks: ./check <id> [--tier quick|thorough] [--replay file]; VERIF_SEED selects the Hypothesis seeds; exit 0/1/2 = held / VIOLATION / HARNESS-ERROR. known_findings.json lists recorded findings and fixed defects.",
    }
    with open(os.path.join(VERIF, "MANIFEST.json"), "w") as f:
        json.dump(m, f, indent=1)
        f.write("\n")
    print("claimed:", [c["property_id"] for c in checks], "n/a:", [x["property_id"] for x in na])


if __name__ == "__main__":
    main()
