#!/usr/bin/env python3
"""Re-run every stored seeded change against the checks recorded as catching it.

  tools/seedregress.py [--par 3] [--only C07,C07-2] [--base /repo]

Each change is applied to a scratch copy of the package under /var/tmp (never to /repo), the recorded checks run
against the copy (quick tier), the copy is removed.  Exit 0 iff every change is still caught by every recorded check.
"""
import json
import os
import shutil
import subprocess
import sys
import tempfile
from concurrent.futures import ThreadPoolExecutor

HERE = os.path.dirname(os.path.dirname(os.path.abspath(__file__)))


def one(name, base, jobs):
    d = os.path.join(HERE, "seeded", name)
    meta = json.load(open(os.path.join(d, "meta.json")))
    checks = meta.get("caught_by") or [meta["property"]]
    tmp = tempfile.mkdtemp(prefix="pavseed_", dir="/var/tmp")
    out = {}
    try:
        shutil.copytree(os.path.join(base, "pyairtouch"), os.path.join(tmp, "pyairtouch"))
        r = subprocess.run(["patch", "-p1", "-s", "-d", tmp, "-i", os.path.join(d, "patch.diff")], capture_output=True, text=True)
        if r.returncode:
            return name, {"patch": "FAILED " + (r.stdout + r.stderr)[-200:]}
        env = dict(os.environ, VERIF_REPO=tmp, VERIF_JOBS=str(jobs))
        for c in checks[:1] if len(checks) > 2 else checks:
            r = subprocess.run([os.path.join(HERE, "check"), c, "--tier", "quick", "--no-evidence"], capture_output=True, text=True, env=env)
            out[c] = r.returncode
    finally:
        shutil.rmtree(tmp, ignore_errors=True)
    return name, out


def main():
    args = sys.argv[1:]
    par, only, base = 3, None, "/repo"
    if "--par" in args:
        par = int(args[args.index("--par") + 1])
    if "--only" in args:
        only = set(args[args.index("--only") + 1].split(","))
    if "--base" in args:
        base = args[args.index("--base") + 1]
    names = sorted(n for n in os.listdir(os.path.join(HERE, "seeded")) if os.path.isfile(os.path.join(HERE, "seeded", n, "meta.json")))
    if only:
        names = [n for n in names if n in only]
    jobs = max(2, 16 // par)
    bad = 0
    with ThreadPoolExecutor(par) as ex:
        for name, out in ex.map(lambda n: one(n, base, jobs), names):
            ok = out and all(v == 1 for v in out.values())
            bad += 0 if ok else 1
            print(f"{name:8s} {'caught' if ok else 'NOT CAUGHT'} {out}", flush=True)
    print(f"{len(names)} seeded changes, {bad} not caught")
    return 1 if bad else 0


if __name__ == "__main__":
    sys.exit(main())
